"""C17 worker: calls the COMPILED kernels of the scratch build directly, with explicit arrays, and returns their outputs
together with the buffers they modify in place.

Kernels that are `cdef` (count_triangles_from_dag, compute_core / MinHeap) are reached through their one-line Python
entry point with the pre-processing functions of that module (module globals of the extension module) replaced by the
identity for the duration of the call, so that the arrays given here are the arrays the kernel sees. Oracle answers
(np.argsort in push_pagerank) are recorded. Nothing in the repository is changed;
every patch is undone before the function returns."""
import contextlib
import ctypes
import types

import numpy as np

I32 = np.int32
F32 = np.float32


def _i(x):
    return np.array(x, dtype=I32)


def _f(x):
    return np.array(x, dtype=F32)


def _fl(x):
    """float32 / float64 buffer -> list of Python floats (exact: every float32 is a float64)."""
    return [float(v) for v in np.asarray(x)]


def _il(x):
    return [int(v) for v in np.asarray(x)]


@contextlib.contextmanager
def _patched(mod, **repl):
    old = {k: getattr(mod, k) for k in repl}
    for k, v in repl.items():
        setattr(mod, k, v)
    try:
        yield
    finally:
        for k, v in old.items():
            setattr(mod, k, v)


def _ident(x, *a, **k):
    return x


# ---------------------------------------------------------------------------------------------
def triangles(a):
    """count_triangles_from_dag(indptr, indices, parallelize) on the given arrays (sequential and prange branch)."""
    import sknetwork.topology.triangles as T
    ns = types.SimpleNamespace(indptr=_i(a['indptr']), indices=_i(a['indices']), shape=(len(a['indptr']) - 1,) * 2)
    with _patched(T, check_square=_ident, directed2undirected=_ident, get_dag=_ident):
        return {'seq': int(T.count_triangles(ns, False)), 'par': int(T.count_triangles(ns, True))}


def core(a):
    """compute_core(indptr, indices) (MinHeap inside) on the given arrays."""
    import sknetwork.topology.core as C
    indptr, indices = _i(a['indptr']), _i(a['indices'])
    ns = types.SimpleNamespace(indptr=indptr, indices=indices)
    with _patched(C, check_format=_ident):
        labels = C.get_core_decomposition(ns)
    return {'labels': _il(labels), 'indptr_after': _il(indptr), 'indices_after': _il(indices)}


def vote(a):
    from sknetwork.classification.vote import vote_update
    indptr, indices, data = _i(a['indptr']), _i(a['indices']), _f(a['data'])
    labels, index = _i(a['labels']), _i(a['index'])
    r = vote_update(indptr, indices, data, labels, index)
    return {'ret': _il(r), 'labels_after': _il(labels), 'index_after': _il(index), 'data_after': _fl(data)}


def diteration(a):
    from sknetwork.linalg.diteration import diffusion
    indptr, indices, data = _i(a['indptr']), _i(a['indices']), _f(a['data'])
    scores, fluid = _f(a['scores']), _f(a['fluid'])
    diffusion(indptr, indices, data, scores, fluid, F32(a['damping']), I32(a['n_iter']), F32(a['tol']))
    return {'scores': _fl(scores), 'fluid': _fl(fluid), 'data_after': _fl(data)}


class _NpProxy:
    """Stands for the module global `np` of push.pyx: records the argsort answer and its argument (= -residuals after the
    first loop), records the L1 norm and answers 1 so that the kernel returns the scores BEFORE the normalisation."""
    def __init__(self):
        self.rec = {}
        self.linalg = types.SimpleNamespace(norm=self._norm)

    def __getattr__(self, k):
        return getattr(np, k)

    def argsort(self, x, *a, **k):
        self.rec['neg_residuals'] = _fl(x)
        r = np.argsort(x, *a, **k)
        self.rec['argsort'] = _il(r)
        return r

    def _norm(self, x, *a, **k):
        self.rec['norm'] = float(np.linalg.norm(x, *a, **k))
        return 1.0


def push(a):
    import sknetwork.linalg.push as P
    proxy = _NpProxy()
    seeds = _f(a['seeds'])
    with _patched(P, np=proxy):
        scores = P.push_pagerank(int(a['n']), _i(a['degrees']), _i(a['indptr']), _i(a['indices']), _i(a['rev_indptr']),
                                 _i(a['rev_indices']), seeds, F32(a['damping']), F32(a['tol']))
    out = {'scores': _fl(scores), 'seeds_after': _fl(seeds)}
    out.update(proxy.rec)
    return out


def wl(a):
    from sknetwork.topology.weisfeiler_lehman_core import weisfeiler_lehman_coloring
    labels = _i(a['labels'])
    powers = np.array(a['powers'], dtype=np.double)
    r, changed = weisfeiler_lehman_coloring(_i(a['indptr']), _i(a['indices']), labels, powers, int(a['max_iter']))
    return {'ret': _il(r), 'labels_after': _il(labels), 'changed': bool(changed), 'powers_after': _fl(powers)}


def brandes(a):
    """Betweenness.fit on the given pattern, without the connectivity check and without the final halving."""
    import sknetwork.ranking.betweenness as B
    n = len(a['indptr']) - 1
    ns = types.SimpleNamespace(indptr=_i(a['indptr']), indices=_i(a['indices']), shape=(n, n))
    with _patched(B, check_format=_ident, check_square=_ident, check_connected=_ident, is_symmetric=lambda x: False):
        est = B.Betweenness().fit(ns)
    return {'scores': _fl(est.scores_)}


def louvain_core(a):
    from sknetwork.clustering.louvain_core import optimize_core
    labels = _i(a['labels'])
    ocw, icw, cw = _f(a['ocw']), _f(a['icw']), _f(a['cw'])
    r, inc = optimize_core(labels, _i(a['indices']), _i(a['indptr']), _f(a['data']), _f(a['ow']), _f(a['iw']), ocw, icw, cw,
                           _f(a['self_loops']), F32(a['resolution']), F32(a['tol']))
    return {'ret': _il(r), 'increase': float(inc), 'labels_after': _il(labels), 'ocw': _fl(ocw), 'icw': _fl(icw), 'cw': _fl(cw)}


_libc = None


def _rand_stream(seed, k):
    global _libc
    if _libc is None:
        _libc = ctypes.CDLL(None)
        _libc.rand.restype = ctypes.c_int
    _libc.srand(ctypes.c_uint(seed))
    return [int(_libc.rand()) for _ in range(k)]


def leiden_refine(a):
    """optimize_refine_core as compiled. Since fix 0f5490bf the kernel carries its own generator (state 1 on entry,
    draw*1103515245+12345 mod 2^32, value draw >> 16): nothing to record, the model evaluates the same stream
    (Safety2.leiden_draw). libc's generator is re-seeded differently before each of two runs: the result must not depend on it."""
    from sknetwork.clustering.leiden_core import optimize_refine_core

    def once(seed):
        _rand_stream(seed, 1)
        labels, lr = _i(a['labels']), _i(a['labels_refined'])
        ocw, icw, cw = _f(a['ocw']), _f(a['icw']), _f(a['cw'])
        r = optimize_refine_core(labels, lr, _i(a['indices']), _i(a['indptr']), _f(a['data']), _f(a['ow']), _f(a['iw']), ocw, icw,
                                 cw, _f(a['self_loops']), F32(a['resolution']))
        return {'ret': _il(r), 'lr_after': _il(lr), 'labels_after': _il(labels), 'ocw': _fl(ocw), 'icw': _fl(icw), 'cw': _fl(cw)}
    first = once(int(a.get('seed', 1)))
    second = once(int(a.get('seed', 1)) + 7919)
    first['libc_independent'] = (first == second)
    return first

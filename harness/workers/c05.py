"""C05 worker: runs the real clustering code (scratch build) and returns raw observations."""
import numpy as np
from scipy import sparse

from sknetwork.clustering import Louvain, Leiden, PropagationClustering, KCenters
from sknetwork.clustering import postprocess as _post
from sknetwork.clustering import kcenters as _kc
from sknetwork.clustering import louvain as _louvain_mod
from sknetwork.clustering import leiden as _leiden_mod
from sknetwork.clustering.postprocess import reindex_labels
from sknetwork.utils.membership import get_membership
from .util import mk_matrix, tolist


def _dense(x):
    if x is None:
        return None
    if sparse.issparse(x):
        x = x.toarray()
    x = np.asarray(x)
    return {'shape': list(x.shape), 'data': x.astype(float).tolist()}


def _ints(x):
    """Label / center vectors: values and whether the dtype is an integer one."""
    if x is None:
        return None
    x = np.asarray(x)
    return {'v': [int(v) for v in x.tolist()] if x.dtype.kind in 'iu' else x.tolist(),
            'int': bool(x.dtype.kind in 'iu'), 'ndim': int(x.ndim)}


def _make(algo, o):
    if algo in ('louvain', 'leiden'):
        cls = Louvain if algo == 'louvain' else Leiden
        return cls(resolution=o.get('resolution', 1), modularity=o.get('modularity', 'dugue'),
                   n_aggregations=o.get('n_aggregations', -1), shuffle_nodes=o.get('shuffle_nodes', False),
                   sort_clusters=o.get('sort_clusters', True), return_probs=o.get('return_probs', True),
                   return_aggregate=o.get('return_aggregate', True), random_state=o.get('random_state'))
    if algo == 'propagation':
        return PropagationClustering(n_iter=o.get('n_iter', 5), node_order=o.get('node_order', 'decreasing'),
                                     weighted=o.get('weighted', True), sort_clusters=o.get('sort_clusters', True),
                                     return_probs=o.get('return_probs', True),
                                     return_aggregate=o.get('return_aggregate', True))
    if algo == 'kcenters':
        return KCenters(n_clusters=o['n_clusters'], directed=o.get('directed', False),
                        center_position=o.get('center_position', 'row'), n_init=o.get('n_init', 2),
                        max_iter=o.get('max_iter', 20))
    raise ValueError(algo)


PRIOR = [dict(shape=[3, 4], coo=[[0, 0, 1], [0, 1, 2], [1, 1, 1], [1, 2, 3], [2, 3, 1], [2, 0, 1]], dtype='int', fmt='csr'),
         dict(shape=[5, 5], coo=[[0, 1, 1], [1, 0, 1], [1, 2, 2], [2, 1, 2], [2, 3, 1], [3, 2, 1], [3, 4, 1], [4, 3, 1]], dtype='int',
              fmt='csr')]


def fit(a):
    """Fit one estimator; return every attribute named by the property."""
    np.random.seed(int(a.get('np_seed', 0)))
    m = mk_matrix(a['m'])
    algo = a['algo']
    est = _make(algo, a.get('options', {}))
    if a.get('prior'):
        # the same estimator object was fitted before, on a bipartite and on a square graph: nothing of these fits may survive
        for spec in PRIOR:
            try:
                if algo == 'propagation':
                    est.fit(mk_matrix(spec))
                else:
                    est.fit(mk_matrix(spec), force_bipartite=False)
            except Exception:  # noqa
                pass
        np.random.seed(int(a.get('np_seed', 0)))
    if algo == 'propagation':
        est.fit(m)
    else:
        est.fit(m, force_bipartite=bool(a.get('force_bipartite', False)))
    g = lambda name: getattr(est, name, None)
    out = {'bipartite': bool(g('bipartite')),
           'labels': _ints(g('labels_')), 'labels_row': _ints(g('labels_row_')), 'labels_col': _ints(g('labels_col_')),
           'probs': _dense(g('probs_')), 'probs_row': _dense(g('probs_row_')), 'probs_col': _dense(g('probs_col_')),
           'aggregate': _dense(g('aggregate_'))}
    if algo == 'kcenters':
        out.update(centers=_ints(g('centers_')), centers_row=_ints(g('centers_row_')),
                   centers_col=_ints(g('centers_col_')))
    return out


class _ArgsortRec:
    """Records every answer of np.argsort while active (the oracle of reindex_labels)."""
    def __init__(self):
        self.calls = []

    def __enter__(self):
        self.orig = np.argsort
        rec = self

        def argsort(x, *args, **kw):
            r = rec.orig(x, *args, **kw)
            rec.calls.append({'keys': np.asarray(x).tolist(), 'perm': np.asarray(r).tolist()})
            return r
        np.argsort = argsort
        return self

    def __exit__(self, *e):
        np.argsort = self.orig


def reindex(a):
    labels = np.array(a['labels'], dtype=int)
    with _ArgsortRec() as rec:
        out = reindex_labels(labels)
    return {'out': tolist(out), 'argsort': rec.calls}


def membership(a):
    labels = np.array(a['labels'], dtype=int)
    m = get_membership(labels, n_labels=a.get('n_labels'))
    return {'shape': list(m.shape), 'data': m.toarray().astype(int).tolist(), 'nnz': int(m.nnz)}


def unique_inverse(a):
    labels = np.array(a['labels'], dtype=a.get('dtype', 'int64'))
    u, inv = np.unique(labels, return_inverse=True)
    return {'unique': tolist(u), 'inverse': tolist(inv)}


def post_processing(a):
    """Louvain._post_processing on a prescribed one-hot membership and shuffle index."""
    raw = np.array(a['raw'], dtype=int)
    n = len(raw)
    m = mk_matrix(a['m'])
    est = Louvain(sort_clusters=a['sort_clusters'], shuffle_nodes=a['shuffle_nodes'])
    est.bipartite = bool(a.get('bipartite', False))
    mem = sparse.csr_matrix((np.ones(n), (np.arange(n), raw)), shape=(n, int(raw.max()) + 1))
    index = np.array(a['index'], dtype=int)
    with _ArgsortRec() as rec:
        est._post_processing(m, mem, index)
    return {'labels': _ints(est.labels_), 'labels_row': _ints(est.labels_row_), 'labels_col': _ints(est.labels_col_),
            'argsort': rec.calls, 'probs': _dense(est.probs_), 'probs_row': _dense(est.probs_row_),
            'probs_col': _dense(est.probs_col_), 'aggregate': _dense(est.aggregate_)}


class _RandRec:
    """Wraps a RandomState and records the permutations it hands out."""
    def __init__(self, rs, perms):
        self.rs = rs
        self.perms = perms

    def permutation(self, x):
        r = self.rs.permutation(x)
        self.perms.append(np.asarray(r).tolist())
        return r

    def __getattr__(self, name):
        return getattr(self.rs, name)


class _PermRec:
    """Records RandomState.permutation answers whether the estimator derives its generator in __init__ or in fit."""
    def __init__(self):
        self.perms = []

    def __enter__(self):
        self.orig = [(m, m.check_random_state) for m in (_louvain_mod, _leiden_mod) if hasattr(m, 'check_random_state')]
        rec = self

        def wrap(orig):
            def check_random_state(rs):
                if isinstance(rs, _RandRec):
                    return rs
                return _RandRec(orig(rs), rec.perms)
            return check_random_state
        for m, f in self.orig:
            m.check_random_state = wrap(f)
        return self

    def __exit__(self, *e):
        for m, f in self.orig:
            m.check_random_state = f


def louvain_levels(a):
    """Real Louvain.fit / Leiden.fit with the optimiser replaced by prescribed answers: exercises the
    compaction, the composition of memberships, sorting, un-shuffling and splitting as coded."""
    m = mk_matrix(a['m'])
    o = a.get('options', {})
    levels = [np.array(l, dtype=int) for l in a['levels']]
    algo = a.get('algo', 'louvain')
    prec = _PermRec()
    prec.__enter__()
    try:
        return _louvain_levels(a, m, o, levels, algo, prec)
    finally:
        prec.__exit__()


def _louvain_levels(a, m, o, levels, algo, prec):
    est = _make(algo, o)
    state = {'k': 0, 'r': 0}

    def _optimize(labels, adjacency, out_weights, in_weights):
        k = state['k']
        state['k'] += 1
        if k >= len(levels) or len(levels[k]) != adjacency.shape[0]:
            raise AssertionError('prescribed level %d has the wrong length' % k)
        last = k == len(levels) - 1
        return levels[k].copy(), (0. if last else 1.)
    est._optimize = _optimize
    if algo == 'leiden':
        refined = [np.array(l, dtype=int) for l in a['refined']]

        def _optimize_refine(labels, labels_refined, adjacency, out_weights, in_weights):
            r = state['r']
            state['r'] += 1
            return refined[r].copy()
        est._optimize_refine = _optimize_refine
    with _ArgsortRec() as rec:
        est.fit(m, force_bipartite=bool(a.get('force_bipartite', False)))
    return {'labels': _ints(est.labels_), 'labels_row': _ints(est.labels_row_), 'labels_col': _ints(est.labels_col_),
            'argsort': [c for c in rec.calls], 'perms': prec.perms, 'levels_used': state['k'],
            'bipartite': bool(est.bipartite)}


def kc_init(a):
    """KCenters._init_centers with np.random.choice and PageRank.fit_predict recorded."""
    np.random.seed(int(a.get('np_seed', 0)))
    adjacency = mk_matrix(a['m']).astype(float)
    mask = np.array(a['mask'], dtype=bool)
    choices, scores = [], []
    orig_choice = np.random.choice
    orig_pr = _kc.PageRank

    def choice(arr, *args, **kw):
        r = orig_choice(arr, *args, **kw)
        choices.append({'cands': np.asarray(arr).tolist(), 'pick': int(r), 'weighted': kw.get('p') is not None})
        return r

    class PR(orig_pr):
        def fit_predict(self, *args, **kw):
            r = orig_pr.fit_predict(self, *args, **kw)
            scores.append(np.asarray(r, dtype=float).tolist())
            return r
    np.random.choice = choice
    _kc.PageRank = PR
    try:
        centers = KCenters._init_centers(adjacency, mask, int(a['k']))
    finally:
        np.random.choice = orig_choice
        _kc.PageRank = orig_pr
    return {'centers': tolist(centers), 'choices': choices, 'scores': scores}


def propagation_post(a):
    """Real PropagationClustering.fit with Propagation.fit replaced by a prescribed raw labelling: exercises the
    compaction, the sort under sort_clusters, the split and the secondary outputs as coded."""
    from sknetwork.classification.propagation import Propagation
    m = mk_matrix(a['m'])
    raw = np.array(a['raw'], dtype=np.int32)
    est = _make('propagation', a.get('options', {}))
    orig = Propagation.fit

    def fake_fit(self, input_matrix, *args, **kw):
        if len(raw) != input_matrix.shape[0]:
            raise AssertionError('prescribed labels have the wrong length')
        self.labels_ = raw.copy()
        self.bipartite = False
        return self
    Propagation.fit = fake_fit
    try:
        with _ArgsortRec() as rec:
            est.fit(m)
    finally:
        Propagation.fit = orig
    return {'labels': _ints(est.labels_), 'labels_row': _ints(est.labels_row_), 'labels_col': _ints(est.labels_col_),
            'argsort': rec.calls, 'bipartite': bool(est.bipartite), 'probs': _dense(est.probs_),
            'probs_row': _dense(est.probs_row_), 'probs_col': _dense(est.probs_col_), 'aggregate': _dense(est.aggregate_)}

"""C15 worker: builds operator expressions from a JSON description with the REAL classes, applies them,
and builds — independently, with plain NumPy — the dense matrix each expression denotes.
Also the conversion utilities.  Runs on the scratch build of /repo."""
import warnings

import numpy as np
from scipy import sparse

from sknetwork.linalg import SparseLR, Regularizer, Normalizer, Laplacian, CoNeighbor, Polynome, normalize
from sknetwork.linalg.normalizer import get_norms
from sknetwork.linalg.laplacian import get_laplacian
from sknetwork.utils.membership import get_membership, from_membership
from sknetwork.utils.neighbors import get_neighbors, get_degrees, get_weights
from sknetwork.utils.format import directed2undirected, bipartite2undirected, bipartite2directed
from sknetwork.utils.tfidf import get_tfidf
from sknetwork.ranking.postprocess import top_k
from .util import mk_matrix, csr_triples, tolist

warnings.filterwarnings('ignore')


def _m(spec, fmt=None):
    spec = dict(spec)
    spec.setdefault('dtype', 'float')
    if fmt:
        spec['fmt'] = fmt
    return mk_matrix(spec)


def _dense(spec):
    r, c = spec['shape']
    d = np.zeros((r, c))
    for e in spec.get('coo', []):
        d[e[0], e[1]] += e[2]
    return d


def _pinv(v):
    v = np.asarray(v, dtype=float)
    out = np.zeros_like(v)
    nz = v != 0
    out[nz] = 1 / v[nz]
    return out


# ------------------------------------------------------------------------------------------------
# snapshots (aliasing detection)
# ------------------------------------------------------------------------------------------------
def _state(obj):
    if isinstance(obj, SparseLR):
        return ('slr', obj.shape, obj.sparse_mat.toarray().tolist(),
                [(x.tolist(), y.tolist()) for (x, y) in obj.low_rank_tuples])
    if isinstance(obj, CoNeighbor):
        return ('cn', obj.shape, obj.backward.toarray().tolist(), obj.forward.toarray().tolist())
    if isinstance(obj, Polynome):
        return ('pl', obj.shape, obj.matrix.toarray().tolist(), np.asarray(obj.coeffs).tolist())
    if isinstance(obj, Normalizer):
        a = obj.adjacency
        return ('nz', obj.shape, (a.toarray() if sparse.issparse(a) else np.asarray(a)).tolist(), float(obj.regularization),
                obj.norm_diag.toarray().tolist())
    if isinstance(obj, Laplacian):
        return ('lp', obj.shape, obj.laplacian.toarray().tolist(), float(obj.regularization))
    if sparse.issparse(obj):
        return ('csr', obj.shape, obj.toarray().tolist())
    return ('other', repr(obj))


def _close(a, b, tol=1e-9):
    a = np.asarray(a, dtype=float)
    b = np.asarray(b, dtype=float)
    if a.shape != b.shape:
        return False
    return bool(np.all(np.abs(a - b) <= tol * np.maximum(1.0, np.maximum(np.abs(a), np.abs(b)))))


class Builder:
    def __init__(self):
        self.alias = []      # operand mutations observed
        self.margin = False  # a pseudo-inverse decided on a value within round-off of zero

    def apply(self, site, operands, dense_before, fn):
        """Run one operation; snapshot the operands before and after."""
        before = [_state(o) for o in operands]
        out = fn()
        for k, o in enumerate(operands):
            if out is o or _state(o) != before[k]:
                changed = _state(o) != before[k]
                if not changed:
                    self.alias.append(dict(site=site, operand=k, returned_self=True, changed=False))
                    continue
                # the operand was mutated: does it still apply as the dense matrix it denoted?
                d = dense_before[k]
                broken = None
                if d is not None:
                    x = np.arange(1, d.shape[1] + 1, dtype=float)
                    try:
                        y = o.dot(x)
                        if not _close(y, d @ x):
                            broken = 'value'
                    except Exception as e:  # noqa
                        broken = 'raises:' + type(e).__name__
                self.alias.append(dict(site=site, operand=k, returned_self=out is o, changed=True, broken=broken))
        return out

    # -- SparseLR expressions ---------------------------------------------------------------
    def slr(self, e):
        tag = e[0]
        if tag == 'SBase':
            d = _dense(e[1])
            lr = [(np.array(x, dtype=float), np.array(y, dtype=float)) for x, y in e[2]]
            for x, y in lr:
                d = d + np.outer(x, y)
            return SparseLR(_m(e[1]), lr), d
        if tag == 'SReg':
            d = _dense(e[1])
            return Regularizer(_m(e[1]), e[2]), d + e[2] / d.shape[1]
        if tag in ('SNeg', 'SMul', 'ST', 'SAstype', 'SNormalize', 'SD2U', 'SLeft', 'SRight', 'SAddCsr', 'SSubCsr'):
            if tag == 'SMul':
                o, d = self.slr(e[2])
                return self.apply('SparseLR.__mul__', [o], [d], lambda: o * e[1]), e[1] * d
            if tag == 'SLeft':
                o, d = self.slr(e[2])
                M = _m(e[1])
                return self.apply('SparseLR.left_sparse_dot', [o, M], [d, None], lambda: o.left_sparse_dot(M)), _dense(e[1]) @ d
            if tag == 'SRight':
                o, d = self.slr(e[1])
                M = _m(e[2])
                return self.apply('SparseLR.right_sparse_dot', [o, M], [d, None], lambda: o.right_sparse_dot(M)), d @ _dense(e[2])
            if tag == 'SAddCsr':
                o, d = self.slr(e[1])
                M = _m(e[2])
                return self.apply('SparseLR.__add__', [o, M], [d, None], lambda: o + M), d + _dense(e[2])
            if tag == 'SSubCsr':
                o, d = self.slr(e[1])
                M = _m(e[2])
                return self.apply('SparseLR.__sub__', [o, M], [d, None], lambda: o - M), d - _dense(e[2])
            o, d = self.slr(e[1])
            if tag == 'SNeg':
                return self.apply('SparseLR.__neg__', [o], [d], lambda: -o), -d
            if tag == 'ST':
                return self.apply('SparseLR._transpose', [o], [d], lambda: o.T), d.T
            if tag == 'SAstype':
                # every second type change of an INTEGER-valued operator (sparse part and every low-rank vector integral)
                # goes to int: the denotation is unchanged, and what follows (scaling by 1/2, float operands, normalize)
                # must still be exact
                self.n_astype = getattr(self, 'n_astype', 0) + 1
                integral = isinstance(o, SparseLR) and bool(np.all(o.sparse_mat.data == np.round(o.sparse_mat.data))) and \
                    all(bool(np.all(x == np.round(x))) and bool(np.all(y == np.round(y))) for (x, y) in o.low_rank_tuples)
                to = int if (integral and self.n_astype % 2 == 1) else float
                return self.apply('SparseLR.astype', [o], [d], lambda: o.astype(to)), d
            if tag == 'SNormalize':
                rs = d.sum(axis=1)
                impl_rs = o.dot(np.ones(o.shape[1]))
                scale = max(1.0, float(np.abs(d).sum(axis=1).max()) if d.size else 1.0)
                if np.any((np.abs(impl_rs) < 1e-7 * scale) & (impl_rs != 0)) or np.any((np.abs(rs) < 1e-7 * scale) & (rs != 0)):
                    self.margin = True
                return self.apply('normalize', [o], [d], lambda: normalize(o)), _pinv(np.where(np.abs(rs) < 1e-7 * scale, 0, rs))[:, None] * d
            if tag == 'SD2U':
                return self.apply('directed2undirected', [o], [d], lambda: directed2undirected(o)), d + d.T
        if tag in ('SAdd', 'SSub'):
            o1, d1 = self.slr(e[1])
            o2, d2 = self.slr(e[2])
            if tag == 'SAdd':
                return self.apply('SparseLR.__add__', [o1, o2], [d1, d2], lambda: o1 + o2), d1 + d2
            return self.apply('SparseLR.__sub__', [o1, o2], [d1, d2], lambda: o1 - o2), d1 - d2
        raise ValueError('unknown SparseLR node %r' % (tag,))

    # -- CoNeighbor --------------------------------------------------------------------------
    def cn(self, e):
        tag = e[0]
        if tag == 'CBase':
            A = _dense(e[1])
            if e[2]:
                f = _pinv(np.abs(A).sum(axis=0))
            else:
                f = np.ones(A.shape[1])
            return CoNeighbor(_m(e[1]), normalized=bool(e[2])), A @ (f[:, None] * A.T)
        if tag == 'CMul':
            o, d = self.cn(e[2])
            return self.apply('CoNeighbor.__mul__', [o], [d], lambda: o * e[1]), e[1] * d
        if tag == 'CLeft':
            o, d = self.cn(e[2])
            M = _m(e[1])
            return self.apply('CoNeighbor.left_sparse_dot', [o, M], [d, None], lambda: o.left_sparse_dot(M)), _dense(e[1]) @ d
        if tag == 'CRight':
            o, d = self.cn(e[1])
            M = _m(e[2])
            return self.apply('CoNeighbor.right_sparse_dot', [o, M], [d, None], lambda: o.right_sparse_dot(M)), d @ _dense(e[2])
        o, d = self.cn(e[1])
        if tag == 'CNeg':
            return self.apply('CoNeighbor.__neg__', [o], [d], lambda: -o), -d
        if tag == 'CT':
            return self.apply('CoNeighbor._transpose', [o], [d], lambda: o.T), d.T
        if tag == 'CAstype':
            return self.apply('CoNeighbor.astype', [o], [d], lambda: o.astype(float)), d
        raise ValueError('unknown CoNeighbor node %r' % (tag,))

    # -- Polynome ----------------------------------------------------------------------------
    def pl(self, e):
        tag = e[0]
        if tag == 'PBase':
            A = _dense(e[1])
            d = np.zeros_like(A)
            P = np.eye(A.shape[0])
            for c in e[2]:
                d = d + c * P
                P = P @ A
            return Polynome(_m(e[1]), np.array(e[2], dtype=float)), d
        if tag == 'PMul':
            o, d = self.pl(e[2])
            return self.apply('Polynome.__mul__', [o], [d], lambda: o * e[1]), e[1] * d
        o, d = self.pl(e[1])
        if tag == 'PNeg':
            return self.apply('Polynome.__neg__', [o], [d], lambda: -o), -d
        if tag == 'PT':
            return self.apply('Polynome._transpose', [o], [d], lambda: o.T), d.T
        raise ValueError('unknown Polynome node %r' % (tag,))

    # -- Normalizer / Laplacian --------------------------------------------------------------
    def nz(self, e):
        tag = e[0]
        if tag == 'NBase':
            A = _dense(e[1])
            R = A + e[2] / A.shape[1]
            fmt = e[3] if len(e) > 3 else None
            return Normalizer(_m(e[1], fmt), e[2]), _pinv(R.sum(axis=1))[:, None] * R
        o, d = self.nz(e[1])
        if tag == 'NT':
            return self.apply('Normalizer._transpose', [o], [d], lambda: o.T), d.T
        raise ValueError('unknown Normalizer node %r' % (tag,))

    def lp(self, e):
        tag = e[0]
        if tag == 'LBase':
            A = _dense(e[1])
            n = A.shape[0]
            R = A + e[2] / n
            w = R.sum(axis=1)
            L = np.diag(w) - R
            if e[3]:
                s = _pinv(np.sqrt(w))
                L = s[:, None] * L * s[None, :]
            fmt = e[4] if len(e) > 4 else None
            return Laplacian(_m(e[1], fmt), e[2], bool(e[3])), L
        o, d = self.lp(e[1])
        if tag == 'LT':
            return self.apply('Laplacian._transpose', [o], [d], lambda: o.T), d.T
        if tag == 'LAstype':
            return self.apply('Laplacian.astype', [o], [d], lambda: o.astype(float)), d
        raise ValueError('unknown Laplacian node %r' % (tag,))

    def build(self, op):
        return getattr(self, op['cls'])(op['e'])


def _try(fn):
    try:
        return {'ok': tolist(fn())}
    except Exception as e:  # noqa
        return {'err': type(e).__name__, 'msg': str(e)[:200]}


def expr(a):
    """a: {'op': {'cls':..,'e':..}, 'x': [...], 'X': [[..],..]}.  Applies the operator to the vector and to the
    matrix (through dot and through _matvec directly), and returns the independent dense matrix."""
    b = Builder()
    try:
        obj, dense = b.build(a['op'])
    except Exception as e:  # noqa
        return {'build_err': type(e).__name__, 'msg': str(e)[:200], 'alias': b.alias}
    x = np.array(a['x'], dtype=float)
    X = np.array(a['X'], dtype=float) if a.get('X') is not None else None
    out = {'shape': list(obj.shape), 'dense': dense.tolist(), 'dense_shape': list(dense.shape), 'alias': b.alias,
           'margin': b.margin}
    out['dot'] = _try(lambda: obj.dot(x))
    out['dense_dot'] = (dense @ x).tolist() if dense.shape[1] == x.shape[0] else None
    if X is not None:
        out['dotm'] = _try(lambda: obj.dot(X))
        out['mv2'] = _try(lambda: obj._matvec(X))
        out['dense_dotm'] = (dense @ X).tolist() if dense.shape[1] == X.shape[0] else None
    if a['op']['cls'] == 'slr':
        out['sum0'] = _try(lambda: obj.sum(axis=0))
        out['sum1'] = _try(lambda: obj.sum(axis=1))
        out['sum'] = _try(lambda: float(obj.sum()))
        out['dense_sums'] = [dense.sum(axis=0).tolist(), dense.sum(axis=1).tolist(), float(dense.sum())]
    return out


# ------------------------------------------------------------------------------------------------
# utilities
# ------------------------------------------------------------------------------------------------
def util(a):
    kind = a['kind']
    if kind == 'normalize':
        m = _m(a['m'], a.get('fmt'))
        snap = _state(m) if sparse.issparse(m) else None
        r = normalize(m, p=a['p'])
        norms = get_norms(m, p=a['p'])
        res = {'norms': tolist(norms), 'dense': (r.toarray() if sparse.issparse(r) else np.asarray(r)).tolist()}
        res['input_unchanged'] = snap is None or _state(m) == snap
        return res
    if kind == 'laplacian':
        m = _m(a['m'])
        return {'dense': sparse.csr_matrix(get_laplacian(m)).toarray().tolist()}
    if kind == 'membership':
        labels = np.array(a['labels'], dtype=int)
        m = get_membership(labels, dtype=float, n_labels=a.get('n_labels'))
        back = from_membership(m)
        mb = get_membership(labels, n_labels=a.get('n_labels'))
        return {'shape': list(m.shape), 'coo': csr_triples(m), 'back': tolist(back),
                'bool_same': bool((mb.astype(float) != m).nnz == 0) and mb.dtype == bool}
    if kind == 'from_membership':
        m = _m(a['m'])
        return {'back': tolist(from_membership(m))}
    if kind == 'neighbors':
        m = _m(a['m'])
        t = bool(a['transpose'])
        n = m.shape[1] if t else m.shape[0]
        return {'neighbors': [sorted(tolist(get_neighbors(m, i, transpose=t))) for i in range(n)],
                'degrees': tolist(get_degrees(m, transpose=t)), 'weights': tolist(get_weights(m, transpose=t))}
    if kind == 'd2u':
        m = _m(a['m'])
        snap = _state(m)
        r = directed2undirected(m, weighted=bool(a['weighted']))
        return {'dense': sparse.csr_matrix(r).astype(float).toarray().tolist(), 'input_unchanged': _state(m) == snap,
                'dtype': str(r.dtype)}
    if kind == 'bip':
        m = _m(a['m'])
        f = bipartite2undirected if a['undirected'] else bipartite2directed
        r = f(m)
        return {'dense': sparse.csr_matrix(r).toarray().tolist()}
    if kind == 'bip_slr':
        b = Builder()
        o, d = b.slr(a['e'])
        f = bipartite2undirected if a['undirected'] else bipartite2directed
        r = f(o)
        n = sum(o.shape)
        return {'dense': r.dot(np.eye(n)).tolist(), 'spec': d.tolist()}
    if kind == 'tfidf':
        m = _m(a['m'])
        r = get_tfidf(m)
        return {'dense': sparse.csr_matrix(r).toarray().tolist()}
    if kind == 'top_k':
        s = a['scores']
        if a.get('as_array', True):
            s = np.array(s, dtype=float)
        return {'index': tolist(top_k(s, k=a['k'], sort=bool(a['sort'])))}
    raise ValueError(kind)


def topk_oracles(a):
    """the answers NumPy gives to the two calls top_k makes (fed to the model as oracles)"""
    s = np.array(a['scores'], dtype=float) if a.get('as_array', True) else np.array(a['scores'])
    k = a['k']
    n = len(s)
    if k >= n:
        return {'argsort_input': (-s).tolist(), 'argsort': np.argsort(-s).tolist(), 'argpartition': []}
    p = np.argpartition(-s, k)
    sub = -s[p[:k]]
    return {'argpartition': p.tolist(), 'argsort_input': sub.tolist(), 'argsort': np.argsort(sub).tolist()}


def normalizer_apply(a):
    """Normalizer(A, reg) applied directly / transposed to a vector and to a matrix (the four branches of _matvec / _rmatvec)."""
    from sknetwork.linalg.operators import Normalizer as _N
    m = sparse.csr_matrix(np.array(a['A'], dtype=float))
    op = _N(m, a['reg'])
    return {'matvec_1d': np.asarray(op.dot(np.array(a['x'], dtype=float))).tolist(),
            'rmatvec_1d': np.asarray(op.T.dot(np.array(a['y'], dtype=float))).tolist(),
            'matvec_2d': np.asarray(op.dot(np.array(a['X'], dtype=float))).tolist(),
            'rmatvec_2d': np.asarray(op.T.dot(np.array(a['Y'], dtype=float))).tolist()}


def slr_history(a):
    """A scripted multi-step history on ONE SparseLR object (and on the transposed object it hands out): every result is
    returned together with the dense oracle computed from plain arrays (truncation of each stored part for an int cast)."""
    S = np.array(a['S'], dtype=float)
    xs = [np.array(x, dtype=float) for x, _ in a['lr']]
    ys = [np.array(y, dtype=float) for _, y in a['lr']]
    op = SparseLR(sparse.csr_matrix(S), list(zip(xs, ys)))
    v_r = np.array(a['v_row'], dtype=float)     # length n_row  (for op.T.dot)
    v_c = np.array(a['v_col'], dtype=float)     # length n_col  (for op.dot)
    out = []

    def dense():
        d = S.copy()
        for x, y in zip(xs, ys):
            d = d + np.outer(x, y)
        return d
    held = None
    for step in a['steps']:
        try:
            if step == 'dot':
                got, exp = op.dot(v_c), dense().dot(v_c)
            elif step == 'Tdot':
                got, exp = op.T.dot(v_r), dense().T.dot(v_r)
            elif step == 'sum0':
                got, exp = op.sum(axis=0), dense().sum(axis=0)
            elif step == 'sum1':
                got, exp = op.sum(axis=1), dense().sum(axis=1)
            elif step == 'hold_T':
                held = op.T
                got, exp = held.dot(v_r), dense().T.dot(v_r)
            elif step == 'cast_held_int':
                if held is None:
                    continue
                held.astype(int)         # the transposed object is the caller's now: casting it must not touch `op`
                got, exp = op.dot(v_c), dense().dot(v_c)
            elif step in ('astype_int', 'astype_float'):
                op.astype(int if step == 'astype_int' else float)
                if step == 'astype_int':
                    S = np.trunc(S)
                    xs = [np.trunc(x) for x in xs]
                    ys = [np.trunc(y) for y in ys]
                got, exp = op.dot(v_c), dense().dot(v_c)
            else:
                raise ValueError(step)
            out.append({'step': step, 'got': np.asarray(got, dtype=float).ravel().tolist(),
                        'exp': np.asarray(exp, dtype=float).ravel().tolist()})
        except Exception as e:  # noqa
            out.append({'step': step, 'err': type(e).__name__, 'msg': str(e)[:200]})
    return out

"""C01, second sentence, worker side: (a) probes of the NumPy / SciPy semantics the static analysis
(harness/translators/argmut.py) relies on, (b) direct calls of public entry points that are NOT in the registry
(utilities, operators, parsers, metrics, post-processing, visualisation helpers) with caller-owned objects, every
argument snapshotted before and after the call."""
import copy

import numpy as np
from scipy import sparse

from .util import mk_matrix


# ----------------------------------------------------------------------------------------------------------
def probe(_):
    """Library facts assumed by the translator (each must be True on the installed NumPy / SciPy)."""
    out = {}
    a = sparse.csr_matrix(np.array([[1., 2.], [0., 3.]]))
    b = a
    d0 = a.data.copy()
    a += sparse.identity(2).tocsr()
    out['sparse += sparse rebinds'] = (a is not b) and bool(np.array_equal(b.data, d0))
    a = sparse.csr_matrix(np.array([[1., 2.], [0., 3.]]))
    b = a
    a -= sparse.identity(2).tocsr()
    out['sparse -= sparse rebinds'] = (a is not b) and bool(np.array_equal(b.data, d0))
    x = np.ones((2, 2))
    y = x
    x += sparse.identity(2).tocsr()
    out['ndarray += sparse rebinds'] = (x is not y) and bool(np.array_equal(y, np.ones((2, 2))))
    w = np.array([1.5, 2.5, 3.5])
    r, c = np.array([0, 0, 1]), np.array([0, 1, 1])
    out['csr_matrix((data,(row,col))) copies'] = not np.shares_memory(sparse.csr_matrix((w, (r, c)), shape=(2, 2)).data, w)
    out['csc_matrix((data,(row,col))) copies'] = not np.shares_memory(sparse.csc_matrix((w, (r, c)), shape=(2, 2)).data, w)
    a = sparse.csr_matrix(np.array([[1., 2., 0.], [0., 3., 1.], [1., 0., 0.]]))
    out['sparse row slice copies'] = not np.shares_memory(a[0:2].data, a.data)
    out['sparse index-array rows copy'] = not np.shares_memory(a[np.array([0, 2])].data, a.data)
    out['sparse astype copies'] = not np.shares_memory(a.astype(float).data, a.data)
    out['sparse copy() copies'] = not np.shares_memory(a.copy().data, a.data)
    out['sparse toarray() is new'] = not np.shares_memory(a.toarray(), a.data)
    v = np.arange(12.).reshape(4, 3)
    out['ndarray index-array copy'] = not np.shares_memory(v[np.array([0, 2])], v)
    out['ndarray mask copy'] = not np.shares_memory(v[v[:, 0] > 1], v)
    out['ndarray astype copies'] = not np.shares_memory(v.astype(float), v)
    out['ndarray copy() copies'] = not np.shares_memory(v.copy(), v)
    out['ndarray arithmetic is new'] = not np.shares_memory(v + 1, v) and not np.shares_memory(-v, v)
    out['np.array(x) copies'] = not np.shares_memory(np.array(v), v)
    out['list(x) of a 1-d array holds scalars'] = all(not isinstance(e, np.ndarray) for e in list(v[:, 0]))
    # the aliases the analysis keeps must really exist (otherwise it would only be imprecise, not wrong) - informative
    out['(info) csr_matrix(csr) shares'] = bool(np.shares_memory(sparse.csr_matrix(a).data, a.data))
    out['(info) csr.tocsr() is self'] = a.tocsr() is a
    out['(info) csr.T shares'] = bool(np.shares_memory(a.T.data, a.data))
    return out


# ----------------------------------------------------------------------------------------------------------
def _snap(x):
    if sparse.issparse(x):
        return ('sp', type(x).__name__, x.shape, str(x.dtype), x.nnz,
                tuple(np.asarray(getattr(x, k)).copy().tolist() for k in ('data', 'indices', 'indptr') if hasattr(x, k) and x.format in ('csr', 'csc')),
                np.asarray(x.todense()).tolist())
    if isinstance(x, np.ndarray):
        return ('nd', x.shape, str(x.dtype), x.copy().tolist())
    if isinstance(x, dict):
        return ('dict', [(repr(k), _snap(v)) for k, v in x.items()])
    if isinstance(x, (list, tuple)):
        return (type(x).__name__, [_snap(v) for v in x])
    return ('obj', repr(x))


def _call(fn, **named):
    """Call fn(**named) (fn receives the objects themselves); return the names of the arguments that changed."""
    before = {k: _snap(v) for k, v in named.items()}
    keep = dict(named)
    fn(**named)
    return sorted(k for k, v in keep.items() if _snap(v) != before[k])


def demos(args):
    """args: {'m': spec of a square int CSR matrix, 'b': spec of a rectangular one, 'seed': int}.
    Returns {demo name: [names of modified arguments]} or {demo name: 'error: ...'} (errors are not C01's business)."""
    import sknetwork as skn
    from sknetwork.linalg import normalize, Normalizer, Laplacian, Regularizer, CoNeighbor, SparseLR, Polynome
    from sknetwork.linalg.normalizer import get_norms
    from sknetwork.linalg.ppr_solver import get_pagerank, RandomSurferOperator
    from sknetwork.utils import get_degrees, get_weights, get_neighbors, get_membership, directed2undirected, \
        bipartite2undirected, bipartite2directed
    from sknetwork.utils.check import add_self_loops, check_format, check_weights, get_probs
    from sknetwork.utils.format import get_adjacency, get_adjacency_values
    from sknetwork.utils.values import get_values, stack_values, values2prob
    from sknetwork.utils.tfidf import get_tfidf
    from sknetwork.hierarchy import Paris, cut_straight, cut_balanced, aggregate_dendrogram, reorder_dendrogram, \
        dasgupta_score, tree_sampling_divergence
    from sknetwork.embedding import LouvainEmbedding
    from sknetwork.clustering import get_modularity, reindex_labels, aggregate_graph
    from sknetwork.data.parse import from_edge_list, from_adjacency_list
    from sknetwork.data import parse
    from sknetwork.visualization import visualize_graph, visualize_bigraph, visualize_dendrogram
    from sknetwork.classification.metrics import get_accuracy_score, get_confusion_matrix, get_f1_scores
    from sknetwork.ranking.postprocess import top_k

    rng = np.random.RandomState(args.get('seed', 0))
    m = mk_matrix(args['m'])                      # square, int CSR
    b = mk_matrix(args['b'])                      # rectangular, int CSR
    n = m.shape[0]
    mf = m.astype(float)
    mneg = mf.copy()
    if mneg.nnz:
        mneg.data[::2] *= -1                      # negative weights make an in-place abs / square visible
    sym = sparse.csr_matrix(m + m.T)
    out = {}

    def run(name, fn, **named):
        try:
            out[name] = _call(fn, **named)
        except Exception as e:                    # noqa
            out[name] = 'error: %s: %s' % (type(e).__name__, str(e)[:80])

    # ---- linalg / utils (documented types: csr, ndarray)
    for p in (1, 2):
        run('normalize[csr,p=%d]' % p, lambda matrix: normalize(matrix, p=p), matrix=mneg.copy())
        run('normalize[dense,p=%d]' % p, lambda matrix: normalize(matrix, p=p), matrix=mneg.toarray())
        run('get_norms[csr,p=%d]' % p, lambda matrix: get_norms(matrix, p=p), matrix=mneg.copy())
    run('Normalizer.dot', lambda adjacency, x: Normalizer(adjacency, 0.5).dot(x), adjacency=mf.copy(), x=rng.rand(n))
    run('Normalizer.T.dot', lambda adjacency, x: Normalizer(adjacency, 0.5).T.dot(x), adjacency=mf.copy(), x=rng.rand(n))
    run('Laplacian.dot', lambda adjacency, x: Laplacian(adjacency, 0.5, True).dot(x), adjacency=sym.astype(float), x=rng.rand(n))
    run('Regularizer.dot', lambda input_matrix, x: Regularizer(input_matrix, 0.5).dot(x), input_matrix=mf.copy(), x=rng.rand(n))
    for normalized in (True, False):
        run('CoNeighbor[%s].dot' % normalized, lambda adjacency, x: (-CoNeighbor(adjacency, normalized) * 2).dot(x),
            adjacency=b.astype(float), x=rng.rand(b.shape[0]))
        run('CoNeighbor[%s][int]' % normalized, lambda adjacency, x: CoNeighbor(adjacency, normalized).dot(x), adjacency=b.copy(),
            x=rng.rand(b.shape[0]))
    u, v = rng.rand(n), rng.rand(n)
    run('SparseLR', lambda sparse_mat, low_rank_tuples, x: ((SparseLR(sparse_mat, low_rank_tuples) * 2).T.astype(float)).dot(x),
        sparse_mat=mf.copy(), low_rank_tuples=[(u, v)], x=rng.rand(n))
    run('SparseLR.left_sparse_dot', lambda sparse_mat, low_rank_tuples, d: SparseLR(sparse_mat, low_rank_tuples).left_sparse_dot(d),
        sparse_mat=mf.copy(), low_rank_tuples=[(u.copy(), v.copy())], d=sparse.diags(rng.rand(n), format='csr'))
    run('normalize[SparseLR]', lambda matrix: normalize(matrix), matrix=SparseLR(mf.copy(), [(np.ones(n), np.ones(n))]))
    run('Polynome.dot', lambda adjacency, coeffs, x: Polynome(adjacency, coeffs).dot(x), adjacency=mf.copy(),
        coeffs=np.array([0., .5, .25]), x=rng.rand(n))
    seeds = rng.rand(n).astype(np.float32)
    for solver in ('piteration', 'diteration', 'RH', 'push', 'lanczos', 'bicgstab'):
        run('get_pagerank[%s]' % solver,
            lambda adjacency, seeds: get_pagerank(adjacency, seeds, damping_factor=0.85, n_iter=10, tol=1e-6, solver=solver),
            adjacency=mf.copy(), seeds=(seeds / seeds.sum()).astype(float))
    run('RandomSurferOperator', lambda adjacency, seeds: RandomSurferOperator(adjacency, seeds, 0.85).dot(np.ones(n)),
        adjacency=mf.copy(), seeds=np.ones(n) / n)
    run('get_degrees', lambda input_matrix: (get_degrees(input_matrix), get_degrees(input_matrix, transpose=True)), input_matrix=m.copy())
    run('get_weights', lambda input_matrix: get_weights(input_matrix, transpose=True), input_matrix=mf.copy())
    run('get_neighbors', lambda input_matrix: get_neighbors(input_matrix, 0, transpose=True), input_matrix=m.copy())
    labels = rng.randint(0, 3, n)
    run('get_membership', lambda labels: get_membership(labels), labels=labels.copy())
    run('directed2undirected', lambda adjacency: (directed2undirected(adjacency), directed2undirected(adjacency, False)), adjacency=m.copy())
    run('directed2undirected[float]', lambda adjacency: directed2undirected(adjacency), adjacency=mf.copy())
    run('directed2undirected[SparseLR]', lambda adjacency: directed2undirected(adjacency), adjacency=SparseLR(mf.copy(), [(u.copy(), v.copy())]))
    run('bipartite2undirected', lambda biadjacency: bipartite2undirected(biadjacency), biadjacency=b.copy())
    run('bipartite2directed', lambda biadjacency: bipartite2directed(biadjacency), biadjacency=b.copy())
    run('add_self_loops[square]', lambda adjacency: add_self_loops(adjacency), adjacency=m.copy())
    run('add_self_loops[rect]', lambda adjacency: add_self_loops(adjacency), adjacency=b.copy())
    for fmt in ('csr', 'csc', 'coo', 'lil', 'dense'):
        x = {'csr': m.copy(), 'csc': m.tocsc(), 'coo': m.tocoo(), 'lil': m.tolil(), 'dense': m.toarray()}[fmt]
        run('check_format[%s]' % fmt, lambda input_matrix: check_format(input_matrix), input_matrix=x)
        run('get_adjacency[%s]' % fmt, lambda input_matrix: get_adjacency(input_matrix, force_bipartite=True), input_matrix=x)
    w = rng.rand(n) + 0.1
    run('check_weights', lambda weights, adjacency: (check_weights(weights, adjacency), get_probs(weights, adjacency)), weights=w.copy(), adjacency=m.copy())
    for which in ('probs', 'labels', None):
        run('get_adjacency_values[farray,%s]' % which, lambda input_matrix, values: get_adjacency_values(input_matrix, values=values, which=which),
            input_matrix=m.copy(), values=w.copy())
        run('get_adjacency_values[dict,%s]' % which, lambda input_matrix, values: get_adjacency_values(input_matrix, values=values, which=which),
            input_matrix=m.copy(), values={0: 1., 1: 2.})
        run('get_adjacency_values[rowcol,%s]' % which,
            lambda input_matrix, values_row, values_col: get_adjacency_values(input_matrix, values_row=values_row, values_col=values_col, which=which),
            input_matrix=b.copy(), values_row=rng.rand(b.shape[0]), values_col=rng.rand(b.shape[1]))
    run('get_values[farray]', lambda values: get_values((n,), values), values=w.copy())
    run('get_values[list]', lambda values: get_values((n,), values), values=list(w))
    run('stack_values', lambda values_row, values_col: stack_values(b.shape, values_row, values_col), values_row=rng.rand(b.shape[0]),
        values_col={0: 1.})
    run('values2prob', lambda values: values2prob(n, values), values=w.copy())
    run('get_tfidf', lambda count_matrix: get_tfidf(count_matrix), count_matrix=b.copy())
    run('LouvainEmbedding.fit[sq]', lambda input_matrix: LouvainEmbedding(random_state=0).fit(input_matrix), input_matrix=sym.copy())
    run('LouvainEmbedding.fit[bip]', lambda input_matrix: LouvainEmbedding(random_state=0).fit(input_matrix), input_matrix=b.copy())
    # ---- hierarchy: Paris with an isolated node (the `adjacency += diag` path), post-processing of a caller's dendrogram
    iso = sparse.bmat([[sym, None], [None, sparse.csr_matrix((1, 1), dtype=sym.dtype)]], format='csr')
    run('Paris.fit[isolated node]', lambda input_matrix: Paris().fit(input_matrix), input_matrix=iso)
    try:
        dendrogram = Paris().fit_predict(sym)
    except Exception:                             # noqa
        dendrogram = None
    if dendrogram is not None and len(dendrogram):
        run('reorder_dendrogram', lambda dendrogram: reorder_dendrogram(dendrogram), dendrogram=dendrogram.copy())
        run('cut_straight', lambda dendrogram: cut_straight(dendrogram, n_clusters=2, return_dendrogram=True), dendrogram=dendrogram.copy())
        run('cut_balanced', lambda dendrogram: cut_balanced(dendrogram, max_cluster_size=3, return_dendrogram=True), dendrogram=dendrogram.copy())
        run('aggregate_dendrogram', lambda dendrogram: aggregate_dendrogram(dendrogram, n_clusters=2, return_counts=True), dendrogram=dendrogram.copy())
        run('dasgupta_score', lambda adjacency, dendrogram: (dasgupta_score(adjacency, dendrogram), tree_sampling_divergence(adjacency, dendrogram)),
            adjacency=sym.copy(), dendrogram=dendrogram.copy())
        names = np.array(['n%d' % i for i in range(n)])
        for rotate in (False, True):
            run('visualize_dendrogram[rotate=%s]' % rotate,
                lambda dendrogram, names: visualize_dendrogram(dendrogram, names=names, rotate=rotate, n_clusters=2, width=300., height=200.),
                dendrogram=dendrogram.copy(), names=names.copy())
    # ---- clustering helpers, metrics
    run('get_modularity', lambda adjacency, labels: get_modularity(adjacency, labels), adjacency=m.copy(), labels=labels.copy())
    run('reindex_labels', lambda labels: reindex_labels(labels), labels=labels.copy())
    run('aggregate_graph', lambda input_matrix, labels: aggregate_graph(input_matrix, labels=labels), input_matrix=m.copy(), labels=labels.copy())
    lt, lp = rng.randint(0, 3, n), rng.randint(-1, 3, n)
    run('classification metrics', lambda labels_true, labels_pred: (get_accuracy_score(labels_true, labels_pred),
                                                                     get_confusion_matrix(labels_true, labels_pred),
                                                                     get_f1_scores(labels_true, labels_pred)), labels_true=lt, labels_pred=lp)
    run('top_k', lambda values: (top_k(values, 2), top_k(values, n + 1)), values=rng.rand(n))
    # ---- parsers
    el = [(int(i), int(j), float(x) + .5) for i, j, x in zip(*sparse.find(m))]
    run('from_edge_list', lambda edge_list: (from_edge_list(edge_list, directed=True), from_edge_list(edge_list, sum_duplicates=False)),
        edge_list=list(el) + list(el[:2]))
    ea = np.array([[e[0], e[1]] for e in el] + [[el[0][0], el[0][1]]]) if el else np.zeros((0, 2), dtype=int)
    ew = np.array([e[2] for e in el] + [el[0][2]]) if el else np.zeros(0)
    if hasattr(parse, 'from_edge_array') and len(ea):
        for directed in (True, False):
            run('from_edge_array[directed=%s]' % directed,
                lambda edge_array, weights: parse.from_edge_array(edge_array, weights=weights, directed=directed),
                edge_array=ea.copy(), weights=ew.copy())
        run('from_edge_array[bipartite]', lambda edge_array, weights: parse.from_edge_array(edge_array, weights=weights, bipartite=True),
            edge_array=ea.copy(), weights=ew.copy())
    run('from_adjacency_list', lambda adjacency_list: from_adjacency_list(adjacency_list, directed=True),
        adjacency_list={int(i): [int(j) for j in m.indices[m.indptr[i]:m.indptr[i + 1]]] for i in range(n)})
    # ---- visualisation with every optional per-node argument owned by the caller
    pos = rng.rand(n, 2)
    edges = [(int(i), int(j), 1) for i, j in zip(*m.nonzero())][:3]
    for name_position in ('right', 'left', 'above', 'below'):
        run('visualize_graph[names %s]' % name_position,
            lambda adjacency, position, names, labels, node_weights, edge_labels: visualize_graph(
                adjacency, position=position, names=names, labels=labels, node_weights=node_weights, edge_labels=edge_labels,
                name_position=name_position, display_edge_weight=True),
            adjacency=mf.copy(), position=pos.copy(), names=np.array(['n%d' % i for i in range(n)]), labels=labels.copy(),
            node_weights=rng.rand(n) + .1, edge_labels=list(edges))
    run('visualize_graph[scores dict]', lambda adjacency, position, scores, seeds: visualize_graph(adjacency, position=position, scores=scores, seeds=seeds),
        adjacency=m.copy(), position=pos.copy(), scores={i: float(i) for i in range(n)}, seeds={0: 1})
    run('visualize_graph[probs]', lambda adjacency, position, probs: visualize_graph(adjacency, position=position, probs=probs),
        adjacency=m.copy(), position=pos.copy(), probs=normalize(sparse.csr_matrix(rng.rand(n, 3))))
    run('visualize_graph[no position]', lambda adjacency: visualize_graph(adjacency), adjacency=sym.copy())
    nr, nc = b.shape
    run('visualize_bigraph',
        lambda biadjacency, names_row, names_col, labels_row, labels_col, position_row, position_col: visualize_bigraph(
            biadjacency, names_row=names_row, names_col=names_col, labels_row=labels_row, labels_col=labels_col,
            position_row=position_row, position_col=position_col, display_edge_weight=True),
        biadjacency=b.astype(float), names_row=np.array(['r%d' % i for i in range(nr)]), names_col=np.array(['c%d' % i for i in range(nc)]),
        labels_row=rng.randint(0, 2, nr), labels_col=rng.randint(0, 2, nc), position_row=rng.rand(nr, 2), position_col=rng.rand(nc, 2))
    run('visualize_bigraph[scores dict]',
        lambda biadjacency, scores_row, scores_col: visualize_bigraph(biadjacency, scores_row=scores_row, scores_col=scores_col),
        biadjacency=b.copy(), scores_row={0: 1., 1: 3.}, scores_col={0: 2.})
    # ---- writes that are part of the contract (reviewed entries of Props/C01.v): the snapshot machinery must SEE them
    from sknetwork.visualization.graphs import svg_text
    from sknetwork.hierarchy.postprocess import get_dendrogram
    run('(by design) svg_text', lambda pos: svg_text(pos, 'a', 3.), pos=np.array([1., 2.]))
    run('(by design) get_dendrogram', lambda tree: get_dendrogram(tree), tree=[[0], [1], [[2], [3]]])
    run('(by design) get_dendrogram[copy_tree]', lambda tree: get_dendrogram(tree, copy_tree=True), tree=[[0], [1], [[2], [3]]])
    return out

"""C20 worker: calls visualize_graph / visualize_bigraph / visualize_dendrogram (and their svg_*
aliases) of the scratch build and returns the SVG string, plus the content of the file written
when `file` is requested."""
import os
import shutil
import tempfile

import numpy as np
from scipy import sparse

from sknetwork.visualization import (visualize_graph, visualize_bigraph, visualize_dendrogram,
                                     svg_graph, svg_bigraph, svg_dendrogram)
from .util import mk_matrix

SCRATCH_ROOT = os.environ.get('VERIF_SCRATCH', '/var/tmp')


def _intkeys(d):
    return {int(k): v for k, v in d.items()}


def _vec(x, dtype=None):
    """{'list': [...]} -> list, {'array': [...]} -> ndarray, {'dict': {...}} -> dict with int keys, None -> None."""
    if x is None:
        return None
    if 'list' in x:
        return list(x['list'])
    if 'array' in x:
        return np.array(x['array']) if dtype is None else np.array(x['array'], dtype=dtype)
    if 'dict' in x:
        return _intkeys(x['dict'])
    if 'int' in x:
        return int(x['int'])
    raise ValueError(x)


def _names(x):
    """{'list': [...]} or {'array': [...]} (numpy array of str / object)."""
    if x is None:
        return None
    if 'list' in x:
        return list(x['list'])
    if 'object' in x:
        a = np.empty(len(x['object']), dtype=object)
        for i, v in enumerate(x['object']):
            a[i] = v
        return a
    return np.array(x['array'])


def _probs(x):
    if x is None:
        return None
    m = np.array(x['rows'], dtype=float)
    if x.get('fmt') == 'csr':
        return sparse.csr_matrix(m)
    return m


def _colors(x):
    if x is None:
        return None
    if 'dict' in x:
        return _intkeys(x['dict'])
    if 'array' in x:
        return np.array(x['array'])
    return list(x['list'])


def _with_file(a, call):
    """call(filename) -> svg; returns the result record."""
    if not a.get('file'):
        return {'svg': call(None), 'file': None}
    d = tempfile.mkdtemp(prefix='sknverif-c20-', dir=SCRATCH_ROOT)
    try:
        base = os.path.join(d, a.get('file_stem') or 'image')
        svg = call(base)
        path = base + '.svg'
        if not os.path.exists(path):
            return {'svg': svg, 'file': None, 'file_missing': True, 'listing': sorted(os.listdir(d))}
        with open(path, 'r', newline='') as f:
            content = f.read()
        return {'svg': svg, 'file': content, 'listing': sorted(os.listdir(d))}
    finally:
        shutil.rmtree(d, ignore_errors=True)


def graph(a):
    adjacency = mk_matrix(a['m']) if a.get('m') is not None else None
    position = np.array(a['position'], dtype=float) if a.get('position') is not None else None
    o = a.get('opts', {})
    kw = {}
    for k in ('name_position', 'width', 'height', 'margin', 'margin_text', 'scale', 'node_size', 'node_size_min',
              'node_size_max', 'display_node_weight', 'node_width', 'node_width_max', 'node_color', 'display_edges',
              'edge_width', 'edge_width_min', 'edge_width_max', 'display_edge_weight', 'edge_color', 'font_size',
              'directed'):
        if k in o:
            kw[k] = o[k]
    if 'labels' in o:
        kw['labels'] = _vec(o['labels'])
    if 'scores' in o:
        kw['scores'] = _vec(o['scores'])
    if 'probs' in o:
        kw['probs'] = _probs(o['probs'])
    if 'seeds' in o:
        kw['seeds'] = _vec(o['seeds'])
    if 'node_weights' in o:
        kw['node_weights'] = np.array(o['node_weights'], dtype=float)
    if 'node_order' in o:
        kw['node_order'] = np.array(o['node_order'], dtype=int)
    if 'edge_labels' in o:
        kw['edge_labels'] = [tuple(int(v) for v in t) for t in o['edge_labels']]
    if 'label_colors' in o:
        kw['label_colors'] = _colors(o['label_colors'])
    names = _names(a.get('names'))
    fn = svg_graph if a.get('alias') else visualize_graph
    if a.get('prior') is not None:
        # an earlier drawing of ANOTHER graph on the same nodes with the very same option objects (lists, arrays): what it does to
        # them must not show in the drawing that follows
        try:
            fn(mk_matrix(a['prior']['m']), position, names, **kw)
        except Exception:       # noqa
            pass
    return _with_file(a, lambda filename: fn(adjacency, position, names, filename=filename, **kw))


def bigraph(a):
    biadjacency = mk_matrix(a['m'])
    o = a.get('opts', {})
    kw = {}
    for k in ('reorder', 'width', 'height', 'margin', 'margin_text', 'scale', 'node_size', 'node_size_min',
              'node_size_max', 'display_node_weight', 'node_width', 'node_width_max', 'color_row', 'color_col',
              'display_edges', 'edge_width', 'edge_width_min', 'edge_width_max', 'edge_color',
              'display_edge_weight', 'font_size'):
        if k in o:
            kw[k] = o[k]
    for k in ('labels_row', 'labels_col', 'scores_row', 'scores_col', 'seeds_row', 'seeds_col'):
        if k in o:
            kw[k] = _vec(o[k])
    for k in ('probs_row', 'probs_col'):
        if k in o:
            kw[k] = _probs(o[k])
    for k in ('node_weights_row', 'node_weights_col', 'position_row', 'position_col'):
        if k in o:
            kw[k] = np.array(o[k], dtype=float)
    if 'edge_labels' in o:
        kw['edge_labels'] = [tuple(int(v) for v in t) for t in o['edge_labels']]
    if 'label_colors' in o:
        kw['label_colors'] = _colors(o['label_colors'])
    names_row = _names(a.get('names_row'))
    names_col = _names(a.get('names_col'))
    fn = svg_bigraph if a.get('alias') else visualize_bigraph
    return _with_file(a, lambda filename: fn(biadjacency, names_row, names_col, filename=filename, **kw))


def dendrogram(a):
    if a.get('paris') is not None:
        from sknetwork.hierarchy import Paris
        dendro = Paris().fit_predict(mk_matrix(a['paris']))
    else:
        dendro = np.array(a['dendrogram'], dtype=float)
    o = a.get('opts', {})
    kw = {}
    for k in ('rotate', 'width', 'height', 'margin', 'margin_text', 'scale', 'line_width', 'n_clusters', 'color',
              'font_size', 'reorder', 'rotate_names'):
        if k in o:
            kw[k] = o[k]
    if 'colors' in o:
        kw['colors'] = _colors(o['colors'])
    names = _names(a.get('names'))
    fn = svg_dendrogram if a.get('alias') else visualize_dendrogram
    r = _with_file(a, lambda filename: fn(dendro, names, filename=filename, **kw))
    r['n_leaves'] = int(dendro.shape[0] + 1)
    heights = dendro[:, 2]
    r['valid'] = bool(np.all(np.diff(heights) >= 0) and heights[-1] > 0 and np.all(np.isfinite(heights)))
    return r


def info(a):
    from sknetwork.visualization.colors import STANDARD_COLORS
    return {'standard_colors': [str(c) for c in STANDARD_COLORS]}

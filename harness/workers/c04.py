"""C04 worker: calls the real ranking algorithms of the scratch build."""
import numpy as np
from scipy import sparse

from sknetwork.ranking import PageRank, Katz, HITS, Closeness, Betweenness
from .util import mk_matrix, tolist


def _weights(w):
    """None | {'array': [...]} | {'dict': [[k, v], ...]} (insertion order kept)."""
    if w is None:
        return None
    if 'array' in w:
        return np.array(w['array'], dtype=float)
    return {int(k): float(v) for k, v in w['dict']}


def pagerank(a):
    """PageRank(...).fit(...). For solver='push' the answer of np.argsort inside the kernel is recorded
    (wrapped from outside; the kernel looks `np.argsort` up at call time)."""
    m = mk_matrix(a['m'])
    # other centralities fitted first on the SAME matrix object (a user computing several scores of one graph): what they do to
    # their argument must not reach the PageRank computed afterwards
    for name in a.get('before') or []:
        try:
            {'Katz': Katz, 'HITS': HITS, 'Closeness': Closeness, 'Betweenness': Betweenness,
             'PageRank': lambda: PageRank(damping_factor=0.5, solver='piteration')}[name]().fit(m)
        except Exception:       # noqa  (an algorithm that refuses the graph is not the subject here)
            pass
    via = a.get('via', 'ctor')
    if via == 'set_params':
        pr = PageRank(damping_factor=0.3, solver='piteration', n_iter=3, tol=1e-2)
        pr.set_params({'damping_factor': a['damping'], 'solver': a['solver'], 'n_iter': a['n_iter'], 'tol': a['tol']})
    elif via == 'attr':
        pr = PageRank()
        pr.damping_factor, pr.solver, pr.n_iter, pr.tol = a['damping'], a['solver'], a['n_iter'], a['tol']
    else:
        pr = PageRank(damping_factor=a['damping'], solver=a['solver'], n_iter=a['n_iter'], tol=a['tol'])
    captured = []
    orig = np.argsort
    if a['solver'] == 'push':
        def spy(x, *args, **kw):
            r = orig(x, *args, **kw)
            captured.append(np.asarray(r).tolist())
            return r
        np.argsort = spy
    try:
        pr.fit(m, weights=_weights(a.get('weights')), weights_row=_weights(a.get('weights_row')),
               weights_col=_weights(a.get('weights_col')), force_bipartite=a.get('force_bipartite', False))
    finally:
        np.argsort = orig
    out = {'bipartite': bool(pr.bipartite), 'order': captured[0] if captured else None}
    if pr.bipartite:
        out['row'] = tolist(pr.scores_row_)
        out['col'] = tolist(pr.scores_col_)
    else:
        out['row'] = tolist(pr.scores_)
        out['col'] = []
    return out


def katz(a):
    m = mk_matrix(a['m'])
    via = a.get('via', 'ctor')
    if via == 'set_params':       # an estimator built with other parameters and reconfigured before the fit (a parameter sweep)
        k = Katz(damping_factor=0.9, path_length=2)
        k.set_params({'damping_factor': a['damping'], 'path_length': a['path_length']})
    elif via == 'attr':
        k = Katz()
        k.damping_factor, k.path_length = a['damping'], a['path_length']
    else:
        k = Katz(damping_factor=a['damping'], path_length=a['path_length'])
    k.fit(m)
    if k.bipartite:
        return {'bipartite': True, 'row': tolist(k.scores_row_), 'col': tolist(k.scores_col_)}
    return {'bipartite': False, 'row': tolist(k.scores_), 'col': []}


def closeness(a):
    m = mk_matrix(a['m'])
    method = a.get('method', 'exact')
    out = {}
    if method == 'approximate':
        # the kernel draws its sources from the global NumPy generator: seed it, and replay the draw
        from math import log
        n = m.shape[0]
        np.random.seed(a['np_seed'])
        c = Closeness(method='approximate', tol=a['tol'])
        c.fit(m)
        np.random.seed(a['np_seed'])
        n_sources = min(int(log(n) / a['tol'] ** 2), n)
        out['sources'] = np.random.choice(np.arange(n), n_sources, replace=False).tolist()
    else:
        c = Closeness(method=method)
        c.fit(m)
    out['scores'] = tolist(c.scores_)
    return out


def betweenness(a):
    m = mk_matrix(a['m'])
    b = Betweenness()
    b.fit(m)
    return {'scores': tolist(b.scores_)}


def hits(a):
    """HITS scores, the raw singular vectors handed to the wrapper by the solver, and an independent dense SVD."""
    m = mk_matrix(a['m'])
    h = HITS()
    h.fit(m)
    dense = np.asarray(m.todense(), dtype=float)
    u, s, vt = np.linalg.svd(dense)
    return {'row': tolist(h.scores_row_), 'col': tolist(h.scores_col_), 'scores': tolist(h.scores_),
            'raw_u': tolist(h.solver.singular_vectors_left_.reshape(-1)),
            'raw_v': tolist(h.solver.singular_vectors_right_.reshape(-1)),
            'svd_u': tolist(u[:, 0]), 'svd_v': tolist(vt[0]), 'svd_s': tolist(s)}


def hits_injected(a):
    """HITS with a custom SVDSolver (the documented extension point) that hands back the exact principal singular
    vectors of the matrix (dense SVD) with a chosen global sign and round-off-sized noise on their zero entries."""
    from sknetwork.linalg import SVDSolver
    m = mk_matrix(a['m'])
    dense = np.asarray(m.todense(), dtype=float)
    u, s, vt = np.linalg.svd(dense)
    u0 = u[:, 0] * (1.0 if u[:, 0].sum() > 0 else -1.0)
    v0 = vt[0] * (1.0 if vt[0].sum() > 0 else -1.0)
    ru = a['sign_u'] * np.where(np.abs(u0) < 1e-12, 0.0, u0) + np.array(a['noise_u'], dtype=float) * (np.abs(u0) < 1e-12)
    rv = a['sign_v'] * np.where(np.abs(v0) < 1e-12, 0.0, v0) + np.array(a['noise_v'], dtype=float) * (np.abs(v0) < 1e-12)

    class Stub(SVDSolver):
        def fit(self, matrix, n_components, init_vector=None):
            self.singular_vectors_left_ = ru.reshape(-1, 1).copy()
            self.singular_vectors_right_ = rv.reshape(-1, 1).copy()
            self.singular_values_ = s[:1].copy()
            return self

    h = HITS(solver=Stub())
    h.fit(m)
    return {'row': tolist(h.scores_row_), 'col': tolist(h.scores_col_), 'raw_u': tolist(ru), 'raw_v': tolist(rv),
            'svd_u': tolist(np.abs(u0)), 'svd_v': tolist(np.abs(v0)), 'svd_s': tolist(s)}


def rso_matvec(a):
    """RandomSurferOperator(adjacency, seeds, damping_factor).dot(x) on a CSR matrix (the operator of piteration / lanczos / bicgstab)."""
    from sknetwork.linalg.ppr_solver import RandomSurferOperator
    m = mk_matrix(a['m']).astype(float)
    op = RandomSurferOperator(m, np.array(a['seeds'], dtype=float), a['damping'])
    return tolist(op.dot(np.array(a['x'], dtype=float)))

"""C13 worker: calls the real classifiers / metrics of the scratch build.

Oracle answers of NumPy (argsort, shuffle, argpartition) and the arguments of the compiled kernel are recorded
by wrapping the functions from outside (no change of the repository)."""
import contextlib
import warnings

import numpy as np
from scipy import sparse

from .util import mk_matrix, tolist

warnings.filterwarnings('ignore')


def _seeds(x):
    """{'array': [...]} | {'list': [...]} | {'dict': [[k, v], ...]} | None"""
    if x is None:
        return None
    if 'array' in x:
        return np.array(x['array'], dtype=int)
    if 'list' in x:
        return list(x['list'])
    if 'dict' in x:
        return {int(k): int(v) for k, v in x['dict']}
    raise ValueError('bad seeds spec')


def _kw(a):
    kw = {}
    for k in ('labels', 'labels_row', 'labels_col'):
        if a.get(k) is not None:
            kw[k] = _seeds(a[k])
    return kw


def _dense(m):
    if m is None:
        return None
    if sparse.issparse(m):
        m = m.toarray()
    return np.asarray(m, dtype=float).tolist()


def _outputs(est):
    out = {'bipartite': bool(getattr(est, 'bipartite', False)) if getattr(est, 'bipartite', None) is not None else None,
           'labels': tolist(est.labels_), 'probs': _dense(est.probs_),
           'labels_row': tolist(est.labels_row_), 'labels_col': tolist(est.labels_col_),
           'probs_row': _dense(est.probs_row_), 'probs_col': _dense(est.probs_col_)}
    return out


@contextlib.contextmanager
def _patched(obj, name, wrapper):
    orig = getattr(obj, name)
    setattr(obj, name, wrapper(orig))
    try:
        yield
    finally:
        setattr(obj, name, orig)


def propagation(a):
    import sknetwork.classification.propagation as P
    rec = {'argsort': [], 'shuffle': [], 'sweeps': 0, 'last_unchanged': None, 'first': None}

    def w_argsort(orig):
        def f(*args, **kw):
            r = orig(*args, **kw)
            rec['argsort'].append(np.asarray(r).tolist())
            return r
        return f

    def w_shuffle(orig):
        def f(x):
            orig(x)
            rec['shuffle'].append(np.asarray(x).tolist())
        return f

    def w_vote(orig):
        def f(indptr, indices, data, labels, index):
            before = np.asarray(labels).copy()
            if rec['first'] is None:
                rec['first'] = {'indptr': np.asarray(indptr).tolist(), 'indices': np.asarray(indices).tolist(),
                                'data': np.asarray(data, dtype=float).tolist(), 'labels': before.tolist(),
                                'index': np.asarray(index).tolist()}
            r = orig(indptr, indices, data, labels, index)
            after = np.asarray(r)
            idx = np.asarray(index)
            rec['sweeps'] += 1
            rec['last_unchanged'] = bool(np.array_equal(before[idx], after[idx]))
            return r
        return f

    est = P.Propagation(n_iter=a.get('n_iter', -1), node_order=a.get('node_order'), weighted=a.get('weighted', True))
    m = mk_matrix(a['m'])
    with _patched(np, 'argsort', w_argsort), _patched(np.random, 'shuffle', w_shuffle), _patched(P, 'vote_update', w_vote):
        est.fit(m, **_kw(a))
    out = _outputs(est)
    out.update(argsort=rec['argsort'], shuffle=rec['shuffle'], sweeps=rec['sweeps'],
               last_unchanged=rec['last_unchanged'], first=rec['first'])
    return out


def diffusion(a):
    from sknetwork.classification import DiffusionClassifier
    est = DiffusionClassifier(n_iter=a.get('n_iter', 10), centering=a.get('centering', True), scale=a.get('scale', 5))
    est.fit(mk_matrix(a['m']), **_kw(a))
    return _outputs(est)


def nn(a):
    from sknetwork.classification import NNClassifier
    rec = []

    def w_argpart(orig):
        def f(x, kth, *args, **kw):
            r = orig(x, kth, *args, **kw)
            rec.append({'dist': np.asarray(x, dtype=float).tolist(), 'k': int(kth), 'ap': np.asarray(r).tolist()})
            return r
        return f

    est = NNClassifier(n_neighbors=a.get('n_neighbors', 3), normalize=a.get('normalize', True))
    with _patched(np, 'argpartition', w_argpart):
        est.fit(mk_matrix(a['m']), **_kw(a))
    out = _outputs(est)
    out['argparts'] = rec
    return out


def pagerank(a):
    from sknetwork.classification import PageRankClassifier
    from sknetwork.ranking import PageRank
    from sknetwork.utils.format import get_adjacency_values
    kw = dict(damping_factor=a.get('damping_factor', 0.85), solver=a.get('solver', 'piteration'),
              n_iter=a.get('n_iter', 10), tol=a.get('tol', 0.))
    est = PageRankClassifier(**kw)
    m = mk_matrix(a['m'])
    est.fit(m, **_kw(a))
    out = _outputs(est)
    if a.get('scores'):
        # the ranking oracle: one personalised PageRank per class, as RankClassifier.fit requests them
        adjacency, seeds, _ = get_adjacency_values(m, **{k.replace('labels', 'values'): v for k, v in _kw(a).items()})
        seeds = seeds.astype(int)
        classes = np.unique(seeds[seeds >= 0])
        cols = []
        for c in classes:
            cols.append(np.asarray(PageRank(**kw).fit_predict(adjacency, np.array(seeds == c).astype(int)), dtype=float))
        out['scores'] = np.array(cols).T.tolist()
        out['classes'] = classes.tolist()
        out['seeds_vector'] = seeds.tolist()
    return out


def nnlinker(a):
    from sknetwork.linkpred import NNLinker
    rec = {'ap': []}

    def w_argpart(orig):
        def f(x, kth, *args, **kw):
            r = orig(x, kth, *args, **kw)
            rec['ap'].append({'k': int(kth), 'ap': np.asarray(r).tolist()})
            return r
        return f

    emb_method = None
    if a.get('fixed_embedding') is not None:
        # an embedding method with SIGNED coordinates (as Spectral / SVD produce): cosine similarities can be negative
        fixed = np.array(a['fixed_embedding'], dtype=float)

        class _Fixed:
            def fit_transform(self, adjacency):
                return fixed.copy()
        emb_method = _Fixed()
    est = NNLinker(n_neighbors=a.get('n_neighbors', 10), threshold=a.get('threshold', 0), embedding_method=emb_method)
    orig_core = est._fit_core

    def core(embedding, mask):
        e = embedding.toarray() if sparse.issparse(embedding) else np.asarray(embedding)
        rec['embedding'] = np.asarray(e, dtype=float).tolist()
        rec['mask'] = np.asarray(mask).astype(bool).tolist()
        return orig_core(embedding, mask)

    est._fit_core = core
    index = None if a.get('index') is None else np.array(a['index'], dtype=int)
    with _patched(np, 'argpartition', w_argpart):
        est.fit(mk_matrix(a['m']), index=index)
    links = sparse.csr_matrix(est.links_)
    rows = []
    for i in range(links.shape[0]):
        lo, hi = links.indptr[i], links.indptr[i + 1]
        rows.append([[int(c), float(v)] for c, v in zip(links.indices[lo:hi], links.data[lo:hi])])
    return {'shape': list(links.shape), 'rows': rows, 'embedding': rec.get('embedding'), 'mask': rec.get('mask'),
            'argparts': rec['ap']}


def metrics(a):
    from sknetwork.classification import metrics as M
    lt = np.array(a['true'], dtype=int)
    lp = np.array(a['pred'], dtype=int)
    out = {}

    def call(name, f):
        try:
            out[name] = {'ok': f()}
        except Exception as e:  # noqa
            out[name] = {'err': type(e).__name__}

    call('accuracy', lambda: float(M.get_accuracy_score(lt, lp)))
    call('confusion', lambda: M.get_confusion_matrix(lt, lp).toarray().astype(int).tolist())
    call('f1_scores', lambda: [np.asarray(x, dtype=float).tolist() for x in M.get_f1_scores(lt, lp, True)])
    call('f1_only', lambda: np.asarray(M.get_f1_scores(lt, lp), dtype=float).tolist())
    for avg in ('micro', 'macro', 'weighted'):
        call('avg_' + avg, lambda avg=avg: float(M.get_average_f1_score(lt, lp, avg)))
    call('f1_binary', lambda: [float(x) for x in M.get_f1_score(lt, lp, True)])
    return out


def vote_kernel(a):
    """Direct call of the compiled kernel (replay of the D5 witness)."""
    from sknetwork.classification.vote import vote_update
    r = vote_update(np.array(a['indptr'], dtype=np.int32), np.array(a['indices'], dtype=np.int32),
                    np.array(a['data'], dtype=np.float32), np.array(a['labels'], dtype=np.int32),
                    np.array(a['index'], dtype=np.int32))
    return np.asarray(r).tolist()

import numpy as np
from scipy import sparse
from sknetwork.path import get_distances, get_shortest_path, breadth_first_search, get_dag
from .util import mk_matrix, csr_edges, tolist


def _src(x):
    if x is None:
        return None
    if isinstance(x, dict):   # {'int': k} or {'array': [...]}
        if 'int' in x:
            return int(x['int'])
        return np.array(x['array'], dtype=int)
    return list(x)


def distances(a):
    m = mk_matrix(a['m'])
    d = get_distances(m, _src(a.get('source')), _src(a.get('source_row')), _src(a.get('source_col')),
                      transpose=a.get('transpose', False), force_bipartite=a.get('force_bipartite', False))
    if isinstance(d, tuple):
        return {'row': tolist(d[0]), 'col': tolist(d[1])}
    return {'all': tolist(d)}


def shortest_path(a):
    m = mk_matrix(a['m'])
    p = get_shortest_path(m, _src(a.get('source')), _src(a.get('source_row')), _src(a.get('source_col')),
                          force_bipartite=a.get('force_bipartite', False))
    return {'shape': list(p.shape), 'edges': csr_edges(p)}


def dag(a):
    m = mk_matrix(a['m'])
    order = None if a.get('order') is None else np.array(a['order'], dtype=int).astype(a.get('order_dtype', 'int64'))
    p = get_dag(m, source=_src(a.get('source')), order=order)
    return {'shape': list(p.shape), 'edges': csr_edges(p)}


def bfs(a):
    m = mk_matrix(a['m'])
    return tolist(breadth_first_search(m, int(a['source'])))


def sequence(a):
    """Several path functions called one after the other on ONE matrix object (a call must not disturb the next one)."""
    m = mk_matrix(a['m'])
    out = []
    for step in a['steps']:
        kind = step['kind']
        try:
            if kind == 'dist':
                out.append({'ok': tolist(get_distances(m, _src(step['source'])))})
            elif kind == 'sp':
                p = get_shortest_path(m, _src(step['source']))
                out.append({'ok': csr_edges(p)})
            elif kind == 'dag':
                p = get_dag(m, order=np.array(step['order'], dtype=int))
                out.append({'ok': csr_edges(p)})
            elif kind == 'edit':
                # the caller changes the graph in place between two calls (an edge added or removed on the same object)
                import warnings
                with warnings.catch_warnings():
                    warnings.simplefilter('ignore')
                    i, j = step.get('add') or step.get('remove')
                    m[i, j] = 1 if 'add' in step else 0
                    if 'remove' in step and sparse.issparse(m):
                        m.eliminate_zeros()
                out.append({'ok': 'edited'})
            else:
                out.append({'ok': tolist(breadth_first_search(m, int(step['source'])))})
        except Exception as e:  # noqa
            out.append({'err': type(e).__name__})
    return out


def shared_sources(a):
    """Two or three path calls on one biadjacency matrix with the SAME caller-owned ndarray objects as source_row / source_col
    (a caller who computes distances and then paths from the same sources); also returns the arrays as they are afterwards."""
    m = mk_matrix(a['m'])
    sr = None if a.get('source_row') is None else np.array(a['source_row'], dtype=int)
    sc = None if a.get('source_col') is None else np.array(a['source_col'], dtype=int)
    out = []
    for kind in a['kinds']:
        try:
            if kind == 'dist':
                d = get_distances(m, source_row=sr, source_col=sc)
                out.append({'ok': [tolist(d[0]), tolist(d[1])]})
            else:
                p = get_shortest_path(m, source_row=sr, source_col=sc)
                out.append({'ok': csr_edges(p)})
        except Exception as e:  # noqa
            out.append({'err': type(e).__name__})
    return {'steps': out, 'source_row_after': tolist(sr), 'source_col_after': tolist(sc)}

from sknetwork.topology import are_isomorphic as _iso
from .util import mk_matrix


def are_isomorphic(a):
    return bool(_iso(mk_matrix(a['a']), mk_matrix(a['b'])))


# ---- Weisfeiler-Lehman correspondence (Model/Wl.v) -------------------------------------------------
def wl_trace(a):
    """color_weisfeiler_lehman with the kernel call intercepted: the CSR arrays and the `powers` table returned
    here are the very objects the implementation handed to weisfeiler_lehman_coloring (floats as exact ratios)."""
    import importlib
    import numpy as np
    from .util import tolist
    W = importlib.import_module('sknetwork.topology.weisfeiler_lehman')
    orig = W.weisfeiler_lehman_coloring
    calls = []

    def spy(indptr, indices, labels, powers, max_iter):
        calls.append(dict(indptr=[int(x) for x in np.asarray(indptr)], indices=[int(x) for x in np.asarray(indices)],
                          powers=[list(float(x).as_integer_ratio()) for x in np.asarray(powers)],
                          max_iter=int(max_iter)))
        return orig(indptr, indices, labels, powers, max_iter)

    W.weisfeiler_lehman_coloring = spy
    try:
        colors = W.color_weisfeiler_lehman(mk_matrix(a['m']), max_iter=a.get('max_iter', -1))
    finally:
        W.weisfeiler_lehman_coloring = orig
    return dict(colors=tolist(colors), calls=calls)


def are_isomorphic_k(a):
    return bool(_iso(mk_matrix(a['a']), mk_matrix(a['b']), max_iter=a.get('max_iter', -1)))

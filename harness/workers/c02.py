from sknetwork.topology import are_isomorphic as _iso
from .util import mk_matrix


def are_isomorphic(a):
    return bool(_iso(mk_matrix(a['a']), mk_matrix(a['b'])))

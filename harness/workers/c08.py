"""C08 worker: cut_straight / cut_balanced / aggregate_dendrogram / hierarchy metrics on the real code."""
import numpy as np
from scipy import sparse

from sknetwork.hierarchy import (cut_straight, cut_balanced, aggregate_dendrogram, dasgupta_cost, dasgupta_score,
                                 tree_sampling_divergence)
from .util import tolist


def _dend(rows):
    if len(rows) == 0:
        return np.zeros((0, 4), dtype=float)
    return np.array(rows, dtype=float)


def _rows(d):
    """Returned dendrogram -> list of [i, j, height, size] (an empty one comes back with shape (0,))."""
    d = np.asarray(d)
    if d.size == 0:
        return []
    return [[int(r[0]), int(r[1]), float(r[2]), int(r[3])] for r in d]


def _one(f):
    try:
        return {'ok': f()}
    except Exception as e:  # noqa
        return {'err': type(e).__name__, 'msg': str(e)[:200]}


def _labels_out(res, ret):
    if ret:
        labels, dnew = res
        return {'labels': tolist(labels), 'dendrogram': _rows(dnew)}
    return {'labels': tolist(res), 'dendrogram': None}


def cuts(a):
    """All the listed calls on one dendrogram. a = {'D': rows, 'calls': [ {fn: ..., ...}, ... ]}"""
    out = []
    for c in a['calls']:
        D = _dend(a['D'])   # fresh array for every call
        before = D.copy()
        fn = c['fn']
        if fn == 'straight':
            r = _one(lambda: _labels_out(cut_straight(D, n_clusters=c.get('n_clusters'), threshold=c.get('threshold'),
                                                      sort_clusters=c['sort'], return_dendrogram=c['ret']), c['ret']))
        elif fn == 'balanced':
            r = _one(lambda: _labels_out(cut_balanced(D, max_cluster_size=c['max_cluster_size'], sort_clusters=c['sort'],
                                                      return_dendrogram=c['ret']), c['ret']))
        elif fn == 'aggregate':
            def g():
                res = aggregate_dendrogram(D, n_clusters=c['n_clusters'], return_counts=c['counts'])
                if c['counts']:
                    return {'dendrogram': _rows(res[0]), 'counts': tolist(res[1])}
                return {'dendrogram': _rows(res), 'counts': None}
            r = _one(g)
        else:
            raise ValueError(fn)
        r['input_unchanged'] = bool(np.array_equal(before, D))
        out.append(r)
    return out


def _adj_base(n, triples, fmt='csr', dtype='float64'):
    r = np.array([e[0] for e in triples], dtype=int)
    c = np.array([e[1] for e in triples], dtype=int)
    w = np.array([e[2] for e in triples], dtype=float)
    m = sparse.csr_matrix((w, (r, c)), shape=(n, n))
    if dtype == 'float64_dup':
        # the same matrix as a valid CSR structure with DUPLICATE entries: every weight split over two stored entries of the same
        # position (what csr_matrix((data, indices, indptr)) keeps as given; the matrix denoted is the sum, as everywhere in SciPy)
        indptr, indices, data = [0], [], []
        for i in range(n):
            for k in range(m.indptr[i], m.indptr[i + 1]):
                indices += [int(m.indices[k])] * 2
                data += [float(m.data[k]) * 0.25, float(m.data[k]) * 0.75]
            indptr.append(len(indices))
        return sparse.csr_matrix((np.array(data, dtype=float), np.array(indices, dtype=np.int32), np.array(indptr, dtype=np.int32)),
                                 shape=(n, n))
    if dtype != 'float64':
        m = m.astype(dtype)
    return m


def metrics(a):
    """a = {'n': n, 'edges': [[u, v, w], ...], 'D': rows}; every metric with both weightings."""
    n = a['n']
    D = _dend(a['D'])
    out = {}
    dt = a.get('dtype', 'float64')
    _adj = lambda n_, triples: _adj_base(n_, triples, dtype=dt)
    for weights in ('uniform', 'degree'):
        out['cost_' + weights] = _one(lambda: float(dasgupta_cost(_adj(n, a['edges']), D, weights=weights)))
        out['ncost_' + weights] = _one(lambda: float(dasgupta_cost(_adj(n, a['edges']), D, weights=weights, normalized=True)))
        out['score_' + weights] = _one(lambda: float(dasgupta_score(_adj(n, a['edges']), D, weights=weights)))
        out['tsd_' + weights] = _one(lambda: float(tree_sampling_divergence(_adj(n, a['edges']), D, weights=weights)))
        out['utsd_' + weights] = _one(lambda: float(tree_sampling_divergence(_adj(n, a['edges']), D, weights=weights,
                                                                            normalized=False)))
    # the same calls, in another order, on ONE float64 CSR object: a score computed after another one on the same matrix must be
    # what a fresh matrix gives (a function that rescales its working copy in place makes only the later calls wrong)
    A = _adj(n, a['edges'])
    seq = {}
    seq['tsd_degree'] = _one(lambda: float(tree_sampling_divergence(A, D, weights='degree')))
    seq['cost_degree'] = _one(lambda: float(dasgupta_cost(A, D, weights='degree')))
    seq['utsd_uniform'] = _one(lambda: float(tree_sampling_divergence(A, D, weights='uniform', normalized=False)))
    seq['cost_uniform'] = _one(lambda: float(dasgupta_cost(A, D, weights='uniform')))
    seq['score_degree'] = _one(lambda: float(dasgupta_score(A, D, weights='degree')))
    seq['tsd_uniform'] = _one(lambda: float(tree_sampling_divergence(A, D, weights='uniform')))
    out['same_object'] = seq
    return out

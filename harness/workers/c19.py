"""C19 workers: GNN layers, activations, losses, sampler, classifier (real implementation, scratch build)."""
import numpy as np
from scipy import sparse

from sknetwork.gnn.layer import Convolution, get_layer
from sknetwork.gnn.activation import get_activation
from sknetwork.gnn.loss import get_loss
from sknetwork.gnn.gnn_classifier import GNNClassifier
from sknetwork.gnn.neighbor_sampler import UniformNeighborSampler
from .util import mk_matrix, tolist


def _features(spec):
    """{'dense': [[...]]} or {'sparse': matrix spec}"""
    if 'dense' in spec:
        return np.array(spec['dense'], dtype=float).reshape(spec['shape'])
    return mk_matrix(spec['sparse'])


def _layer(a):
    # option names are case-insensitive in the library ('Both', as its own tests write it): the spelling must not matter
    sp = {'title': str.title, 'upper': str.upper}.get(a.get('norm_spelling'), str)
    kw = dict(out_channels=a['out'], use_bias=a['use_bias'], normalization=sp(a['norm']),
              self_embeddings=a['self_embeddings'])
    if a['act'] in ('ce', 'bce'):
        layer = Convolution('conv', activation='identity', loss={'ce': 'CrossEntropy', 'bce': 'BinaryCrossEntropy'}[a['act']], **kw)
    else:
        layer = Convolution('conv', activation=a['act'], **kw)
    # weights are stored in layer.weight (in, out) and layer.bias (1, out); weights_initialized guards re-initialisation
    layer.weight = np.array(a['weight'], dtype=float).reshape(a['in'], a['out'])
    layer.bias = np.array(a['bias'], dtype=float).reshape(1, a['out']) if a['use_bias'] else None
    layer.weights_initialized = True
    return layer


def layer_forward(a):
    """One Convolution.forward with explicit weights. Returns output and embedding as lists of rows."""
    adjacency = mk_matrix(a['adjacency'])
    features = _features(a['features'])
    layer = _layer(a)
    if a.get('prior_factors') and sparse.issparse(adjacency) and adjacency.nnz:
        # the SAME layer applied first to the SAME adjacency object carrying other weights (entry k multiplied by factor k), the weights
        # then restored in place: the forward pass that follows is a pass on the graph the object now holds
        orig = adjacency.data.copy()
        adjacency.data *= np.resize(np.array(a['prior_factors'], dtype=float), len(orig))
        try:
            layer(adjacency, features)
        except Exception:       # noqa
            pass
        adjacency.data[:] = orig
    before = (adjacency.indptr.copy(), adjacency.indices.copy(), adjacency.data.copy()) if sparse.issparse(adjacency) else None
    out = layer(adjacency, features)
    res = {'output': np.asarray(out).tolist(), 'embedding': np.asarray(layer.embedding).tolist()}
    if before is not None:
        # a network hands ONE adjacency object to every layer: a second layer (normalisation 'both', same weights) applied
        # to the object the first layer has just seen must give what it gives on a fresh copy
        res['adjacency_unchanged'] = bool(np.array_equal(before[0], adjacency.indptr) and np.array_equal(before[1], adjacency.indices)
                                          and np.array_equal(before[2], adjacency.data))
        try:
            other = dict(a, norm='both' if a['norm'] != 'both' else 'right')
            l2, l3 = _layer(other), _layer(other)
            second = np.asarray(l2(adjacency, features))
            fresh = np.asarray(l3(mk_matrix(a['adjacency']), _features(a['features'])))
            res['second_layer_same_object'] = second.tolist()
            res['second_layer_fresh'] = fresh.tolist()
        except Exception as e:  # noqa
            res['second_layer_error'] = type(e).__name__
    return res


def _fd(f, x, h=1e-6):
    """Central finite differences of the scalar function f at the matrix x."""
    g = np.zeros_like(x)
    for i in range(x.shape[0]):
        for k in range(x.shape[1]):
            xp = x.copy()
            xm = x.copy()
            xp[i, k] += h
            xm[i, k] -= h
            g[i, k] = (f(xp) - f(xm)) / (2 * h)
    return g


def activation_gradient(a):
    """gradient(signal, direction) of an activation and the finite-difference Jacobian-transpose product
    d/d signal <output(signal), direction> computed from the implementation's own output()."""
    act = get_loss(a['name']) if a['name'] in ('CrossEntropy', 'BinaryCrossEntropy') else get_activation(a['name'])
    signal = np.array(a['signal'], dtype=float)
    direction = np.array(a['direction'], dtype=float)
    grad = act.gradient(signal, direction)
    fd = _fd(lambda s: float((act.output(s) * direction).sum()), signal)
    return {'gradient': np.asarray(grad).tolist(), 'fd': fd.tolist(), 'output': np.asarray(act.output(signal)).tolist()}


def activation_output(a):
    """output(signal) alone (no finite differences: the signal may be far outside their range)."""
    act = get_loss(a['name']) if a['name'] in ('CrossEntropy', 'BinaryCrossEntropy') else get_activation(a['name'])
    with np.errstate(all='ignore'):
        out = np.asarray(act.output(np.array(a['signal'], dtype=float)))
    return {'output': [[(x if np.isfinite(x) else repr(float(x))) for x in row] for row in out.tolist()]}


def loss_gradient(a):
    """loss_gradient(signal, labels) and n * finite differences of the implementation's own mean loss."""
    loss = get_loss(a['name'])
    signal = np.array(a['signal'], dtype=float)
    labels = np.array(a['labels'], dtype=int)
    n = len(labels)
    grad = loss.loss_gradient(signal, labels)
    fd = n * _fd(lambda s: float(loss.loss(s, labels)), signal)
    return {'gradient': np.asarray(grad).tolist(), 'fd': fd.tolist(), 'probs': np.asarray(loss.output(signal)).tolist(),
            'loss': float(loss.loss(signal, labels))}


def sampler(a):
    """UniformNeighborSampler on a CSR matrix; the answers of np.random.choice are recorded."""
    adjacency = mk_matrix(a['adjacency'])
    np.random.seed(a['seed'])
    stream = []
    orig = np.random.choice

    def recording_choice(*args, **kwargs):
        r = orig(*args, **kwargs)
        stream.append(np.asarray(r).tolist())
        return r

    np.random.choice = recording_choice
    try:
        s = UniformNeighborSampler(sample_size=a['sample_size'])(adjacency)
    finally:
        np.random.choice = orig
    s = sparse.csr_matrix(s)
    rows = [[[int(s.indices[t]), float(s.data[t])] for t in range(s.indptr[i], s.indptr[i + 1])] for i in range(s.shape[0])]
    src = sparse.csr_matrix(adjacency)
    src_rows = [[[int(src.indices[t]), float(src.data[t])] for t in range(src.indptr[i], src.indptr[i + 1])]
                for i in range(src.shape[0])]
    return {'rows': rows, 'stream': stream, 'source_rows': src_rows}


def _fit_once(a, prefit=False):
    adjacency = mk_matrix(a['adjacency'])
    features = _features(a['features'])
    gnn = GNNClassifier(dims=a['dims'], layer_types=a['layer_types'], activations=a['activations'],
                        use_bias=a.get('use_bias', True), normalizations=a['normalizations'],
                        self_embeddings=a['self_embeddings'], sample_sizes=a.get('sample_sizes', 25),
                        loss=a['loss'], optimizer=a['optimizer'], learning_rate=a.get('learning_rate', 0.01),
                        early_stopping=a['early_stopping'], patience=a.get('patience', 10))
    labels = {int(k): int(v) for k, v in a['labels'].items()}
    if prefit:
        # the object has been trained before (other labels, other seed); fit(reinit=True, random_state=s) must then give
        # what a fresh object gives with random_state=s
        vals = sorted(set(labels.values()))
        other = {k: vals[(vals.index(v) + 1) % len(vals)] for k, v in labels.items()}
        try:
            gnn.fit(adjacency, features, other, n_epochs=max(2, a['n_epochs'] // 2), validation=a.get('validation', 0),
                    random_state=a['random_state'] + 17)
        except Exception as e:  # noqa
            # the EARLIER fit (other labels, other seed) is not the subject: e.g. its random validation split may hold no
            # labelled node on a 4-node graph, which the library reports by raising; no history, nothing to compare
            return {'skipped': 'earlier fit raised %s' % type(e).__name__}
        gnn.fit(adjacency, features, labels, n_epochs=a['n_epochs'], validation=a.get('validation', 0),
                random_state=a['random_state'], reinit=True)
    else:
        gnn.fit(adjacency, features, labels, n_epochs=a['n_epochs'], validation=a.get('validation', 0),
                random_state=a['random_state'])
    res = {'labels': tolist(gnn.labels_), 'output': np.asarray(gnn.output_).tolist(),
           'predict': tolist(gnn.predict()), 'epochs': len(gnn.history_['loss']),
           'n_train': int(np.sum(gnn.train_mask))}
    try:
        proba = gnn.predict_proba()
        res['proba'] = np.asarray(proba).tolist()
    except Exception as e:  # noqa
        res['proba_err'] = type(e).__name__
        res['proba_msg'] = str(e)[:200]
    return res


def classifier(a):
    """Two fresh GNNClassifier objects fitted with identical arguments and random_state."""
    out = {'first': _fit_once(a), 'second': _fit_once(a)}
    try:
        out['refit'] = _fit_once(a, prefit=True)
    except Exception as e:  # noqa
        out['refit'] = {'err': type(e).__name__, 'msg': str(e)[:200]}
    return out

"""Call-site bindings that route bipartite / transpose flags (C10, C03)."""
import ast

from ..translate import TranslateError, _src, _func, _calls, _binding, _cstr, _bool, _bexpr


def gen_routing():
    """Bindings at the call sites that route bipartite / transpose flags (C10, C03)."""
    dist_tree = ast.parse(_src('sknetwork/path/distances.py'))
    sp_tree = ast.parse(_src('sknetwork/path/shortest_path.py'))
    fmt_tree = ast.parse(_src('sknetwork/utils/format.py'))
    get_distances = _func(dist_tree, 'get_distances')
    sp = _func(sp_tree, 'get_shortest_path')
    calls = _calls(sp, 'get_distances')
    if len(calls) != 1:
        raise TranslateError('expected exactly one call of get_distances in get_shortest_path')
    b = _binding(calls[0], get_distances)
    lines = ['(* generated from sknetwork/path/shortest_path.py, distances.py, utils/format.py *)',
             'From Coq Require Import String List Bool.', 'Import ListNotations.', 'Open Scope string_scope.']
    lines.append('Definition sp_binding : list (string * string) := [%s].' %
                 '; '.join('(%s, %s)' % (_cstr(k), _cstr(v)) for k, v in sorted(b.items())))
    lines.append('Definition sp_fb_to_transpose : bool := %s.' % _bool(b.get('transpose') == 'force_bipartite'))
    lines.append('Definition sp_fb_to_force : bool := %s.' % _bool(b.get('force_bipartite') == 'force_bipartite'))
    lines.append('Definition sp_transpose_bound : bool := %s.' % _bool('transpose' in b))
    for formal in ('input_matrix', 'source', 'source_row', 'source_col'):
        lines.append('Definition sp_%s_ok : bool := %s.' % (formal, _bool(b.get(formal) == formal)))
    # get_distances -> get_adjacency
    ga = _func(fmt_tree, 'get_adjacency')
    calls = _calls(get_distances, 'get_adjacency')
    if len(calls) != 1:
        raise TranslateError('expected exactly one call of get_adjacency in get_distances')
    b2 = _binding(calls[0], ga)
    lines.append('Definition dist_adj_binding : list (string * string) := [%s].' %
                 '; '.join('(%s, %s)' % (_cstr(k), _cstr(v)) for k, v in sorted(b2.items())))
    lines.append('Definition dist_fb_to_force : bool := %s.' % _bool(b2.get('force_bipartite') == 'force_bipartite'))
    lines.append('Definition dist_no_directed_flags : bool := %s.' %
                 _bool('allow_directed' not in b2 and 'force_directed' not in b2))
    # the boolean expression deciding `bipartite` in get_adjacency
    expr = None
    for n in ast.walk(ga):
        if isinstance(n, ast.If) and len(n.body) == 1 and isinstance(n.body[0], ast.Assign) \
                and ast.unparse(n.body[0]) == 'bipartite = True':
            expr = n.test
    if expr is None:
        raise TranslateError('decision `bipartite = True` not found in get_adjacency')
    lines.append('Definition adj_decision (force_bipartite square allow_directed symmetric : bool) : bool := %s.' %
                 _bexpr(expr, {'force_bipartite': 'force_bipartite', 'allow_directed': 'allow_directed',
                               'is_square(input_matrix)': 'square', 'is_symmetric(input_matrix)': 'symmetric'}))
    return '\n'.join(lines) + '\n'


FILES = {'Routing.v': gen_routing}

"""Statement-level translator: Python `ast` -> terms of coq/Model/PyImp.v (a small imperative Python with dicts, lists,
`for ... in range(...)`, `for a, b, c, d in rows`, `if`, `raise` and the side-effecting expression `d.pop(k)`).

Gen/PyCuts.v (C08), from sknetwork/hierarchy/postprocess.py and utils/check.py:

  * src_cut_balanced      : the body of cut_balanced between `check_dendrogram(dendrogram)` and the final
                            `return get_labels(...)` (argument check, the `cluster` dict, the merge loop);
  * src_cut_straight_core : the body of cut_straight from `cluster = {...}` to the final `return get_labels(...)`
                            (defaults of n_clusters, check_n_clusters INLINED from utils/check.py, the cut height, the threshold,
                            the merge loop);
  * src_reduce_loop       : the `for i, j, height, _ in dendrogram:` loop of get_labels (return_dendrogram=True);
  * the statements around them that are NOT translated, as strings (pinned by an obligation of Props/C08.v), and the
    argument lists of the two `return get_labels(...)` calls.

Fail-closed: any construct outside the subset raises TranslateError, the file then does not define the terms, the link
theorems of Proofs/PyCutsProofs.v no longer compile and the check searches dynamically.
"""
import ast

from ..translate import TranslateError, _src, _func, _cstr

BINOPS = {ast.Add: 'BAdd', ast.Sub: 'BSub', ast.Mult: 'BMul'}
CMPOPS = {ast.Lt: 'CLt', ast.LtE: 'CLe', ast.Gt: 'CGt', ast.GtE: 'CGe', ast.Eq: 'CEq', ast.NotEq: 'CNe'}
ERRORS = {'ValueError': 'PValueError', 'KeyError': 'PKeyError', 'IndexError': 'PIndexError', 'TypeError': 'PTypeError'}


def _z(n):
    return '(%d)%%Z' % n


class Tr:
    """One translation context: `rename` maps the names of an inlined callee to prefixed names; `inline` maps callee
    names to their FunctionDef."""

    def __init__(self, inline=None, rename=None):
        self.inline = inline or {}
        self.rename = rename or {}
        self.oracles = []          # external functions answered through the environment: at most one call of each per fragment

    def var(self, name):
        return _cstr(self.rename.get(name, name))

    # ---------------------------------------------------------------- expressions
    def expr(self, e):
        if isinstance(e, ast.Name):
            return '(EVar %s)' % self.var(e.id)
        if isinstance(e, ast.Constant):
            if e.value is None:
                return 'ENone'
            if e.value is True or e.value is False:
                return '(EBool %s)' % ('true' if e.value else 'false')
            if isinstance(e.value, int):
                return '(EInt %s)' % _z(e.value)
            raise TranslateError('unsupported constant %r' % (e.value,))
        if isinstance(e, ast.Attribute):
            if isinstance(e.value, ast.Name) and e.value.id == 'np' and e.attr == 'inf':
                return 'EInf'
            if isinstance(e.value, ast.Name) and e.attr == 'shape' and e.value.id not in self.rename:
                return '(EVar %s)' % _cstr(e.value.id + '.shape')      # the shape of a matrix argument: an input of the fragment
            raise TranslateError('unsupported attribute ' + ast.unparse(e))
        if isinstance(e, ast.UnaryOp):
            if isinstance(e.op, ast.Not):
                return '(ENot %s)' % self.expr(e.operand)
            if isinstance(e.op, ast.USub) and isinstance(e.operand, ast.Constant) and isinstance(e.operand.value, int) \
                    and not isinstance(e.operand.value, bool):
                return '(EInt %s)' % _z(-e.operand.value)
            if isinstance(e.op, ast.USub):
                return '(ENeg %s)' % self.expr(e.operand)
            raise TranslateError('unsupported unary operator in ' + ast.unparse(e))
        if isinstance(e, ast.BinOp):
            # x * np.ones(n): n copies of x
            if isinstance(e.op, ast.Mult) and isinstance(e.right, ast.Call) and ast.unparse(e.right.func) == 'np.ones' \
                    and len(e.right.args) == 1 and not e.right.keywords:
                return '(EFull %s %s)' % (self.expr(e.right.args[0]), self.expr(e.left))
            if type(e.op) not in BINOPS:
                raise TranslateError('unsupported operator in ' + ast.unparse(e))
            return '(EBin %s %s %s)' % (BINOPS[type(e.op)], self.expr(e.left), self.expr(e.right))
        if isinstance(e, ast.BoolOp):
            c = 'EAnd' if isinstance(e.op, ast.And) else 'EOr'
            vals = [self.expr(v) for v in e.values]
            out = vals[-1]
            for v in reversed(vals[:-1]):
                out = '(%s %s %s)' % (c, v, out)
            return out
        if isinstance(e, ast.Compare):
            if len(e.ops) != 1:
                raise TranslateError('chained comparison ' + ast.unparse(e))
            op, a, b = e.ops[0], e.left, e.comparators[0]
            if isinstance(op, (ast.Is, ast.IsNot)):
                if not (isinstance(b, ast.Constant) and b.value is None):
                    raise TranslateError('`is` with something else than None: ' + ast.unparse(e))
                t = '(EIsNone %s)' % self.expr(a)
                return t if isinstance(op, ast.Is) else '(ENot %s)' % t
            if isinstance(op, (ast.In, ast.NotIn)):
                t = '(EIn %s %s)' % (self.expr(a), self.expr(b))
                return t if isinstance(op, ast.In) else '(ENot %s)' % t
            if type(op) not in CMPOPS:
                raise TranslateError('unsupported comparison ' + ast.unparse(e))
            return '(ECmp %s %s %s)' % (CMPOPS[type(op)], self.expr(a), self.expr(b))
        if isinstance(e, ast.Subscript):
            # x.shape[0] -> len(x)
            if isinstance(e.value, ast.Attribute) and e.value.attr == 'shape' and isinstance(e.slice, ast.Constant) \
                    and e.slice.value == 0:
                return '(ELen %s)' % self.expr(e.value.value)
            if isinstance(e.slice, ast.Slice):
                raise TranslateError('slice outside np.sort(a[:, c]): ' + ast.unparse(e))
            if isinstance(e.slice, ast.Tuple):
                if len(e.slice.elts) != 2 or any(isinstance(x, ast.Slice) for x in e.slice.elts):
                    raise TranslateError('unsupported subscript ' + ast.unparse(e))
                return '(EIndex (EIndex %s %s) %s)' % (self.expr(e.value), self.expr(e.slice.elts[0]), self.expr(e.slice.elts[1]))
            return '(EIndex %s %s)' % (self.expr(e.value), self.expr(e.slice))
        if isinstance(e, (ast.List, ast.Tuple)):
            return '(EList [%s])' % '; '.join(self.expr(x) for x in e.elts)
        if isinstance(e, ast.ListComp):
            if len(e.generators) != 1:
                raise TranslateError('nested comprehension')
            g = e.generators[0]
            if g.ifs or g.is_async or not isinstance(g.target, ast.Name):
                raise TranslateError('unsupported comprehension ' + ast.unparse(e))
            return '(EListComp %s %s %s)' % (self.var(g.target.id), self.expr(e.elt), self.expr(g.iter))
        if isinstance(e, ast.DictComp):
            if len(e.generators) != 1:
                raise TranslateError('nested comprehension')
            g = e.generators[0]
            if not g.ifs and not g.is_async and isinstance(g.target, ast.Tuple) and len(g.target.elts) == 2 \
                    and all(isinstance(x, ast.Name) for x in g.target.elts) and self._is_enumerate(g.iter):
                return '(EDictEnum %s %s %s %s %s)' % (self.var(g.target.elts[0].id), self.var(g.target.elts[1].id),
                                                       self.expr(e.key), self.expr(e.value), self.expr(g.iter.args[0]))
            if g.ifs or g.is_async or not isinstance(g.target, ast.Name) or not self._is_range1(g.iter):
                raise TranslateError('unsupported comprehension ' + ast.unparse(e))
            return '(EDictRange %s %s %s %s)' % (self.var(g.target.id), self.expr(e.key), self.expr(e.value),
                                                 self.expr(g.iter.args[0]))
        if isinstance(e, ast.Call):
            return self.call(e)
        raise TranslateError('unsupported expression ' + ast.unparse(e))

    @staticmethod
    def _is_enumerate(c):
        return isinstance(c, ast.Call) and isinstance(c.func, ast.Name) and c.func.id == 'enumerate' and len(c.args) == 1 \
            and not c.keywords

    @staticmethod
    def _is_range1(c):
        return isinstance(c, ast.Call) and isinstance(c.func, ast.Name) and c.func.id == 'range' and len(c.args) == 1 \
            and not c.keywords

    def call(self, c):
        f = c.func
        if isinstance(f, ast.Attribute) and isinstance(f.value, ast.Name) and f.value.id == 'np' and f.attr == 'zeros' \
                and len(c.args) == 1 and len(c.keywords) == 1 and c.keywords[0].arg == 'dtype' \
                and isinstance(c.keywords[0].value, ast.Name) and c.keywords[0].value.id == 'int':
            return '(EZeros %s)' % self.expr(c.args[0])
        if c.keywords:
            raise TranslateError('keyword arguments in ' + ast.unparse(c))
        if isinstance(f, ast.Name):
            if f.id == 'list' and len(c.args) == 1 and isinstance(c.args[0], ast.Call) and not c.args[0].args \
                    and not c.args[0].keywords and isinstance(c.args[0].func, ast.Attribute) and c.args[0].func.attr == 'values':
                return '(EDictValues %s)' % self.expr(c.args[0].func.value)
            if f.id == 'list' and len(c.args) == 1 and isinstance(c.args[0], ast.Call) and not c.args[0].args \
                    and not c.args[0].keywords and isinstance(c.args[0].func, ast.Attribute) and c.args[0].func.attr == 'keys':
                return '(EDictKeys %s)' % self.expr(c.args[0].func.value)
            if f.id == 'isinstance' and len(c.args) == 2:
                k = ast.unparse(c.args[1])
                kinds = {'list': 'KList', 'dict': 'KDict', 'np.ndarray': 'KArray'}
                if k not in kinds:
                    raise TranslateError('isinstance with ' + k)
                return '(EIsInst %s %s)' % (kinds[k], self.expr(c.args[0]))
            if f.id == 'int' and len(c.args) == 1:
                return '(EIntOf %s)' % self.expr(c.args[0])
            if f.id == 'len' and len(c.args) == 1:
                return '(ELen %s)' % self.expr(c.args[0])
            if f.id == 'max' and len(c.args) == 2:
                return '(EMax %s %s)' % (self.expr(c.args[0]), self.expr(c.args[1]))
        if isinstance(f, ast.Attribute):
            if f.attr == 'pop' and isinstance(f.value, ast.Name) and len(c.args) == 1:
                return '(EPop %s %s)' % (self.var(f.value.id), self.expr(c.args[0]))
            if f.attr == 'min' and isinstance(f.value, ast.Name) and f.value.id == 'np' and len(c.args) == 1:
                return '(EMin %s)' % self.expr(c.args[0])
            if f.attr == 'ones' and isinstance(f.value, ast.Name) and f.value.id == 'np' and len(c.args) == 1:
                return '(EOnes %s)' % self.expr(c.args[0])
            if f.attr == 'hstack' and isinstance(f.value, ast.Name) and f.value.id == 'np' and len(c.args) == 1 \
                    and isinstance(c.args[0], ast.Tuple) and len(c.args[0].elts) == 2:
                return '(EHstack %s %s)' % (self.expr(c.args[0].elts[0]), self.expr(c.args[0].elts[1]))
            if f.attr == 'astype' and len(c.args) == 1 and isinstance(c.args[0], ast.Name) and c.args[0].id == 'float':
                return '(EAsFloat %s)' % self.expr(f.value)
            if f.attr == 'array' and isinstance(f.value, ast.Name) and f.value.id == 'np' and len(c.args) == 1:
                return self.expr(c.args[0])       # np.array(list): an array is the list of its entries
            if f.attr == 'argsort' and isinstance(f.value, ast.Name) and f.value.id == 'np' and len(c.args) == 1:
                if 'np.argsort' in self.oracles:
                    raise TranslateError('np.argsort is called twice in one fragment')
                self.oracles.append('np.argsort')
                return '(EOracle "np.argsort" %s)' % self.expr(c.args[0])
            if f.attr == 'sort' and isinstance(f.value, ast.Name) and f.value.id == 'np' and len(c.args) == 1:
                a = c.args[0]
                if isinstance(a, ast.Subscript) and isinstance(a.slice, ast.Tuple) and len(a.slice.elts) == 2:
                    s0, s1 = a.slice.elts
                    if isinstance(s0, ast.Slice) and s0.lower is None and s0.upper is None and s0.step is None \
                            and isinstance(s1, ast.Constant) and isinstance(s1.value, int):
                        return '(ESortedCol %s %s)' % (self.expr(a.value), _z(s1.value))
        raise TranslateError('unsupported call ' + ast.unparse(c))

    # ---------------------------------------------------------------- statements
    def block(self, stmts, tail=False):
        """tail: the block ends the body of an inlined function, where a bare `return` is a no-op."""
        out = [self.stmt(s, tail and i == len(stmts) - 1) for i, s in enumerate(stmts)]
        if not out:
            return 'SSkip'
        t = out[-1]
        for s in reversed(out[:-1]):
            t = '(SSeq %s\n %s)' % (s, t)
        return t

    def stmt(self, s, tail=False):
        if isinstance(s, ast.Assign):
            if len(s.targets) != 1:
                raise TranslateError('multiple assignment targets')
            t = s.targets[0]
            if isinstance(t, ast.Name) and isinstance(s.value, ast.Call) and isinstance(s.value.func, ast.Name) \
                    and s.value.func.id in self.inline:
                return self.inline_call(s.value, target=self.var(t.id))
            if isinstance(t, ast.Tuple) and all(isinstance(x, ast.Name) for x in t.elts):
                if isinstance(s.value, ast.Tuple) and len(s.value.elts) == len(t.elts):
                    # a, b = ea, eb: both right-hand sides are evaluated first; sequential assignment is the same when no
                    # right-hand side mentions an assigned name
                    used = {n.id for v in s.value.elts for n in ast.walk(v) if isinstance(n, ast.Name)}
                    if used & {x.id for x in t.elts}:
                        raise TranslateError('tuple assignment whose right-hand side uses its targets: ' + ast.unparse(s))
                    out = ['(SAssign %s %s)' % (self.var(x.id), self.expr(v)) for x, v in zip(t.elts, s.value.elts)]
                    r = out[-1]
                    for o in reversed(out[:-1]):
                        r = '(SSeq %s\n %s)' % (o, r)
                    return r
                return '(SUnpack [%s] %s)' % ('; '.join(self.var(x.id) for x in t.elts), self.expr(s.value))
            if isinstance(t, ast.Name):
                return '(SAssign %s %s)' % (self.var(t.id), self.expr(s.value))
            if isinstance(t, ast.Subscript) and isinstance(t.value, ast.Name) and not isinstance(t.slice, (ast.Slice, ast.Tuple)):
                return '(SSetItem %s %s %s)' % (self.var(t.value.id), self.expr(t.slice), self.expr(s.value))
            raise TranslateError('unsupported assignment target ' + ast.unparse(t))
        if isinstance(s, ast.AugAssign):
            if isinstance(s.op, ast.Add) and isinstance(s.target, ast.Name):
                return '(SAugAdd %s %s)' % (self.var(s.target.id), self.expr(s.value))
            raise TranslateError('unsupported augmented assignment ' + ast.unparse(s))
        if isinstance(s, ast.If):
            return '(SIf %s\n %s\n %s)' % (self.expr(s.test), self.block(s.body, tail), self.block(s.orelse, tail))
        if isinstance(s, ast.For):
            if s.orelse:
                raise TranslateError('for ... else')
            if isinstance(s.target, ast.Name) and self._is_range1(s.iter):
                return '(SForRange %s %s\n %s)' % (self.var(s.target.id), self.expr(s.iter.args[0]), self.block(s.body))
            if isinstance(s.target, ast.Tuple) and len(s.target.elts) == 2 and all(isinstance(x, ast.Name) for x in s.target.elts) \
                    and self._is_enumerate(s.iter):
                return '(SForEnum %s %s %s\n %s)' % (self.var(s.target.elts[0].id), self.var(s.target.elts[1].id),
                                                     self.expr(s.iter.args[0]), self.block(s.body))
            if isinstance(s.target, ast.Tuple) and all(isinstance(x, ast.Name) for x in s.target.elts) \
                    and isinstance(s.iter, ast.Name):
                return '(SForRows [%s] %s\n %s)' % ('; '.join(self.var(x.id) for x in s.target.elts), self.expr(s.iter),
                                                    self.block(s.body))
            raise TranslateError('unsupported loop header ' + ast.unparse(s).splitlines()[0])
        if isinstance(s, ast.Raise):
            x = s.exc
            name = x.func.id if isinstance(x, ast.Call) and isinstance(x.func, ast.Name) else (x.id if isinstance(x, ast.Name) else None)
            if name not in ERRORS or s.cause is not None:
                raise TranslateError('unsupported raise ' + ast.unparse(s))
            return '(SRaise %s)' % ERRORS[name]
        if isinstance(s, ast.Return):
            if tail and s.value is None:
                return 'SSkip'
            raise TranslateError('return outside the tail of an inlined function')
        if isinstance(s, ast.Expr):
            c = s.value
            if isinstance(c, ast.Constant) and isinstance(c.value, str):
                return 'SSkip'     # docstring
            if isinstance(c, ast.Call) and isinstance(c.func, ast.Attribute) and c.func.attr == 'append' \
                    and isinstance(c.func.value, ast.Name) and len(c.args) == 1 and not c.keywords:
                return '(SAppend %s %s)' % (self.var(c.func.value.id), self.expr(c.args[0]))
            if isinstance(c, ast.Call) and isinstance(c.func, ast.Name) and c.func.id in self.inline:
                return self.inline_call(c)
            if isinstance(c, ast.Call) and ast.unparse(c.func) == 'warnings.warn':
                return 'SSkip'      # a warning has no effect on the values computed
            raise TranslateError('unsupported expression statement ' + ast.unparse(s))
        raise TranslateError('unsupported statement ' + ast.unparse(s).splitlines()[0])

    def inline_call(self, c, target=None):
        """f(a1, ..., k=v): bind the formals (renamed `f.formal`) to the actuals evaluated in the caller, then the body with every
        local renamed `f.local`.  With `target`, the body must end with one `return e` (its only return): `target = e`."""
        fn = self.inline[c.func.id]
        a = fn.args
        if a.vararg or a.kwarg or a.posonlyargs or a.kwonlyargs:
            raise TranslateError('unsupported signature of ' + fn.name)
        formals = [x.arg for x in a.args]
        defaults = dict(zip(formals[len(formals) - len(a.defaults):], a.defaults))
        actual = {}
        if len(c.args) > len(formals):
            raise TranslateError('too many arguments for ' + fn.name)
        for f, x in zip(formals, c.args):
            if isinstance(x, ast.Starred):
                raise TranslateError('star argument')
            actual[f] = self.expr(x)
        for k in c.keywords:
            if k.arg is None or k.arg not in formals or k.arg in actual:
                raise TranslateError('bad keyword %s for %s' % (k.arg, fn.name))
            actual[k.arg] = self.expr(k.value)
        body = list(fn.body)
        if body and isinstance(body[0], ast.Expr) and isinstance(body[0].value, ast.Constant) and isinstance(body[0].value.value, str):
            body = body[1:]
        stored = {n.id for st in body for n in ast.walk(st) if isinstance(n, ast.Name) and isinstance(n.ctx, ast.Store)}
        rename = {f: '%s.%s' % (fn.name, f) for f in set(formals) | stored}
        inner = Tr(self.inline, rename)
        binds = []
        for f in formals:
            if f in actual:
                v = actual[f]
            elif f in defaults:
                v = Tr().expr(defaults[f])
            else:
                raise TranslateError('missing argument %s of %s' % (f, fn.name))
            binds.append('(SAssign %s %s)' % (inner.var(f), v))
        # every name read in the callee must be a formal, a local, a builtin we translate, or an inlinable function
        ok = set(rename) | set(ERRORS) | {'np', 'warnings', 'isinstance', 'list', 'dict', 'len', 'int', 'float', 'max', 'range',
                                           'enumerate', 'Warning'} | set(self.inline)
        for n in (x for st in body for x in ast.walk(st)):
            if isinstance(n, ast.Name) and n.id not in ok:
                raise TranslateError('name %s in %s is not a parameter or a local' % (n.id, fn.name))
        if target is None:
            t = inner.block(body, tail=True)
        else:
            if not body or not isinstance(body[-1], ast.Return) or body[-1].value is None or \
                    any(isinstance(n, ast.Return) for st in body[:-1] for n in ast.walk(st)):
                raise TranslateError('%s: expected a single `return e` at the end' % fn.name)
            t = inner.block(body[:-1])
            t = '(SSeq %s\n (SAssign %s %s))' % (t, target, inner.expr(body[-1].value))
        for b in reversed(binds):
            t = '(SSeq %s\n %s)' % (b, t)
        self.oracles += inner.oracles
        return t


def _strs(items):
    return '[%s]' % '; '.join(_cstr(x) for x in items)


def _get_labels_tail(fn, last):
    if not (isinstance(last, ast.Return) and isinstance(last.value, ast.Call) and isinstance(last.value.func, ast.Name)
            and last.value.func.id == 'get_labels' and not last.value.keywords
            and all(isinstance(a, ast.Name) for a in last.value.args)):
        raise TranslateError('%s: expected a final `return get_labels(<names>)`' % fn.name)
    return [a.id for a in last.value.args]


def pycuts():
    post = ast.parse(_src('sknetwork/hierarchy/postprocess.py'))
    chk = ast.parse(_src('sknetwork/utils/check.py'))
    inline = {'check_n_clusters': _func(chk, 'check_n_clusters')}
    out = ['(* generated from sknetwork/hierarchy/postprocess.py and utils/check.py by harness/translators/pyimp.py *)',
           'From SKN Require Import Base.Util Model.PyImp.',
           'From Coq Require Import String.',
           'Local Open Scope string_scope.', '']

    def body(fn):
        b = list(fn.body)
        if b and isinstance(b[0], ast.Expr) and isinstance(b[0].value, ast.Constant) and isinstance(b[0].value.value, str):
            b = b[1:]
        return b

    # ---- cut_balanced
    fn = _func(post, 'cut_balanced')
    b = body(fn)
    if not (isinstance(b[0], ast.Expr) and ast.unparse(b[0]) == 'check_dendrogram(dendrogram)'):
        raise TranslateError('cut_balanced: expected check_dendrogram(dendrogram) first')
    out.append('Definition src_cut_balanced_params : list string := %s.' % _strs([a.arg for a in fn.args.args]))
    out.append('Definition src_cut_balanced : stmt :=\n %s.' % Tr(inline).block(b[1:-1]))
    out.append('Definition src_cut_balanced_tail : list string := %s.' % _strs(_get_labels_tail(fn, b[-1])))
    out.append('')

    # ---- cut_straight
    fn = _func(post, 'cut_straight')
    b = body(fn)
    idx = [i for i, s in enumerate(b) if isinstance(s, ast.Assign) and len(s.targets) == 1
           and isinstance(s.targets[0], ast.Name) and s.targets[0].id == 'cluster']
    if len(idx) != 1:
        raise TranslateError('cut_straight: expected exactly one assignment of `cluster`')
    out.append('Definition src_cut_straight_params : list string := %s.' % _strs([a.arg for a in fn.args.args]))
    out.append('Definition src_cut_straight_head : list string := %s.' % _strs([ast.unparse(s) for s in b[:idx[0]]]))
    out.append('Definition src_cut_straight_core : stmt :=\n %s.' % Tr(inline).block(b[idx[0]:-1]))
    out.append('Definition src_cut_straight_tail : list string := %s.' % _strs(_get_labels_tail(fn, b[-1])))
    out.append('')

    # ---- get_labels: the loop that builds the reduced dendrogram
    fn = _func(post, 'get_labels')
    b = body(fn)
    ifs = [s for s in b if isinstance(s, ast.If) and isinstance(s.test, ast.Name) and s.test.id == 'return_dendrogram']
    if len(ifs) != 1:
        raise TranslateError('get_labels: expected one `if return_dendrogram:`')
    blk = ifs[0].body
    loops = [i for i, s in enumerate(blk) if isinstance(s, ast.For)]
    if len(loops) != 1:
        raise TranslateError('get_labels: expected one loop under `if return_dendrogram:`')
    k = loops[0]
    out.append('Definition src_reduce_init : list string := %s.' % _strs([ast.unparse(s) for s in blk[:k]]))
    out.append('Definition src_reduce_init_stmt : stmt :=\n %s.' % Tr().block(blk[:k]))
    if ifs[0].orelse and [ast.unparse(x) for x in ifs[0].orelse] != ['return labels']:
        raise TranslateError('get_labels: the else branch of `if return_dendrogram:` is not `return labels`')
    out.append('Definition src_get_labels_head : stmt :=\n %s.' % Tr().block(b[:b.index(ifs[0])]))
    out.append('Definition src_reduce_loop : stmt :=\n %s.' % Tr().stmt(blk[k]))
    out.append('Definition src_reduce_after : list string := %s.' % _strs([ast.unparse(s) for s in blk[k + 1:]]))
    out.append('Definition src_get_labels_before : list string := %s.' % _strs([ast.unparse(s) for s in b[:b.index(ifs[0])]]))
    return '\n'.join(out) + '\n'


def pyvalues():
    vals = ast.parse(_src('sknetwork/utils/values.py'))
    fmt = ast.parse(_src('sknetwork/utils/format.py'))
    gv, sv = _func(vals, 'get_values'), _func(vals, 'stack_values')
    inline = {'get_values': gv, 'stack_values': sv}
    out = ['(* generated from sknetwork/utils/values.py and utils/format.py by harness/translators/pyimp.py *)',
           'From SKN Require Import Base.Util Model.PyImp.',
           'From Coq Require Import String.',
           'Local Open Scope string_scope.', '']

    def body(fn):
        b = list(fn.body)
        if b and isinstance(b[0], ast.Expr) and isinstance(b[0].value, ast.Constant) and isinstance(b[0].value.value, str):
            b = b[1:]
        return b

    def whole(fn, name):
        b = body(fn)
        if not isinstance(b[-1], ast.Return) or b[-1].value is None or \
                any(isinstance(n, ast.Return) for st in b[:-1] for n in ast.walk(st)):
            raise TranslateError('%s: expected a single `return e` at the end' % fn.name)
        tr = Tr(inline)
        out.append('Definition %s_params : list string := %s.' % (name, _strs([a.arg for a in fn.args.args])))
        out.append('Definition %s : stmt :=\n (SSeq %s\n (SAssign "return" %s)).' % (name, tr.block(b[:-1]), tr.expr(b[-1].value)))
        out.append('')

    whole(gv, 'src_get_values')
    whole(sv, 'src_stack_values')
    # get_adjacency_values: the statement that computes `values` (between the call of get_adjacency and the `which` post-processing)
    fn = _func(fmt, 'get_adjacency_values')
    b = body(fn)
    ifs = [i for i, s in enumerate(b) if isinstance(s, ast.If) and isinstance(s.test, ast.Name) and s.test.id == 'bipartite']
    if len(ifs) != 1:
        raise TranslateError('get_adjacency_values: expected one `if bipartite:`')
    k = ifs[0]
    out.append('Definition src_adjacency_values_params : list string := %s.' % _strs([a.arg for a in fn.args.args]))
    out.append('Definition src_adjacency_values_before : list string := %s.' % _strs([ast.unparse(s) for s in b[:k]]))
    out.append('Definition src_adjacency_values_core : stmt :=\n %s.' % Tr(inline).stmt(b[k]))
    out.append('Definition src_adjacency_values_after : list string := %s.' % _strs([ast.unparse(s) for s in b[k + 1:]]))
    return '\n'.join(out) + '\n'


def pysplit():
    post = ast.parse(_src('sknetwork/hierarchy/postprocess.py'))
    fn = _func(post, 'split_dendrogram')
    b = list(fn.body)
    if b and isinstance(b[0], ast.Expr) and isinstance(b[0].value, ast.Constant) and isinstance(b[0].value.value, str):
        b = b[1:]
    if not isinstance(b[-1], ast.Return):
        raise TranslateError('split_dendrogram: expected a final return')
    out = ['(* generated from sknetwork/hierarchy/postprocess.py by harness/translators/pyimp.py *)',
           'From SKN Require Import Base.Util Model.PyImp.',
           'From Coq Require Import String.',
           'Local Open Scope string_scope.', '',
           'Definition src_split_params : list string := %s.' % _strs([a.arg for a in fn.args.args]),
           'Definition src_split_dendrogram : stmt :=\n %s.' % Tr().block(b[:-1]),
           'Definition src_split_return : string := %s.' % _cstr(ast.unparse(b[-1]))]
    return '\n'.join(out) + '\n'


FILES = {'PyCuts.v': pycuts, 'PyValues.v': pyvalues, 'PySplit.v': pysplit}

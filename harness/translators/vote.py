"""Facts of the label-propagation sources the C13 model is parametrised by (Gen/VoteConsts.v).

vote.pyx (line-level scan):
  * which subscript is used in `votes_neigh.push_back(data[..])`: the edge position (loop variable of
    `for j in range(indptr[i], indptr[i + 1])`) or the neighbour's node index (`jj = indices[j]`);
  * whether `votes_neigh.clear()` is executed;
  * whether `votes` has n entries or max(n, max(labels) + 1);
  * (sanity, fail-closed) the arg-max comparison is the strict `votes[label] > best_score` starting from -1,
    `labels_neigh.clear()` is present, votes is sized by `labels.shape[0]`.
propagation.py (ast):
  * the test of `_instantiate_vars` that selects clustering mode;
  * the length of the vector of ones used as `data` when weighted=False;
  * how 'increasing' / 'decreasing' turn the argsort into the update order.
Anything not recognised raises TranslateError (the check then reports the correspondence as broken).
"""
import ast
import re

from ..translate import TranslateError, _src, _func


def _strip(line):
    return line.split('#', 1)[0].rstrip()


def _kernel():
    lines = [_strip(l) for l in _src('sknetwork/classification/vote.pyx').splitlines()]
    body = [l.strip() for l in lines if l.strip()]
    text = '\n'.join(body)
    loops = re.findall(r'^for (\w+) in range\(indptr\[i\], indptr\[i \+ 1\]\):$', text, re.M)
    if len(loops) != 1:
        raise TranslateError('vote.pyx: expected exactly one loop over range(indptr[i], indptr[i + 1])')
    edge = loops[0]
    nodes = re.findall(r'^(\w+) = indices\[%s\]$' % re.escape(edge), text, re.M)
    if len(nodes) != 1:
        raise TranslateError('vote.pyx: expected exactly one `<node> = indices[%s]`' % edge)
    node = nodes[0]
    pushes = re.findall(r'^votes_neigh\.push_back\((.*)\)$', text, re.M)
    if len(pushes) != 1:
        raise TranslateError('vote.pyx: expected exactly one votes_neigh.push_back(...)')
    m = re.fullmatch(r'data\[(\w+)\]', pushes[0].strip())
    if not m or m.group(1) not in (edge, node):
        raise TranslateError('vote.pyx: unrecognised weight expression %r' % pushes[0])
    wpos = m.group(1) == edge
    lab_push = re.findall(r'^labels_neigh\.push_back\((.*)\)$', text, re.M)
    if lab_push != ['labels[%s]' % node]:
        raise TranslateError('vote.pyx: unrecognised labels_neigh.push_back')
    clr = len(re.findall(r'^votes_neigh\.clear\(\)$', text, re.M))
    if clr > 1:
        raise TranslateError('vote.pyx: several votes_neigh.clear()')
    # size of the votes accumulator: the `for` header just before `votes.push_back(0)`
    k = [i for i, l in enumerate(body) if l == 'votes.push_back(0)']
    if len(k) != 1 or k[0] == 0:
        raise TranslateError('vote.pyx: expected exactly one votes.push_back(0)')
    header = body[k[0] - 1]
    if header == 'for i in range(n):':
        vlab = False
    elif header == 'for i in range(n_votes):':
        want = ['cdef int n_votes = n', 'for i in range(n):', 'if labels[i] >= n_votes:', 'n_votes = labels[i] + 1']
        if body[k[0] - 5:k[0] - 1] != want:
            raise TranslateError('vote.pyx: unrecognised computation of n_votes')
        vlab = True
    else:
        raise TranslateError('vote.pyx: unrecognised size of votes (%r)' % header)
    for needle, what in ((r'^labels_neigh\.clear\(\)$', 'labels_neigh.clear()'),
                         (r'^if votes\[label\] > best_score:$', 'strict arg-max comparison'),
                         (r'^best_score = -1$', 'best_score = -1'),
                         (r'^cdef int n = labels\.shape\[0\]$', 'votes sized by labels.shape[0]'),
                         (r'^votes\[label\] \+= votes_neigh\[jj\]$', 'votes[label] += votes_neigh[jj]'),
                         (r'^votes\[label\] = 0$', 'votes[label] = 0'),
                         (r'^if label >= 0:$', 'if label >= 0'),
                         (r'^labels_unique\.insert\(label\)$', 'labels_unique.insert(label)')):
        if len(re.findall(needle, text, re.M)) != 1:
            raise TranslateError('vote.pyx: expected exactly one `%s`' % what)
    if not re.search(r'^cdef set\[int\] labels_unique', text, re.M):
        raise TranslateError('vote.pyx: labels_unique is not a set[int]')
    return wpos, bool(clr), vlab


_DISTINCT = {'len(set(labels)) == n', 'len(np.unique(labels)) == n', 'len(set(labels)) == len(labels)'}
_NONNEG = {'(labels >= 0).all()', 'np.all(labels >= 0)', 'not np.any(labels < 0)', 'not (labels < 0).any()',
           'np.min(labels) >= 0', 'labels.min() >= 0', 'min(labels) >= 0'}
_NNZ = {'len(indices)', 'indices.shape[0]', 'adjacency.nnz', 'len(adjacency.data)', 'adjacency.data.shape[0]',
        'len(adjacency.indices)', 'adjacency.indices.shape[0]', 'indices.size', 'adjacency.data.size'}


def _ctest(test):
    s = ast.unparse(test)
    if s in _DISTINCT:
        return 'CT_distinct'
    if s in _NONNEG:
        return 'CT_nonneg'
    if isinstance(test, ast.BoolOp) and isinstance(test.op, ast.And) and len(test.values) == 2:
        parts = {ast.unparse(v) for v in test.values}
        if len(parts & _DISTINCT) == 1 and len(parts & _NONNEG) == 1:
            return 'CT_distinct_nonneg'
    raise TranslateError('propagation.py: unrecognised clustering-mode test %r' % s)


def _propagation():
    tree = ast.parse(_src('sknetwork/classification/propagation.py'))
    iv = _func(tree, '_instantiate_vars', cls='Propagation')
    ifs = [n for n in iv.body if isinstance(n, ast.If)]
    if len(ifs) != 1:
        raise TranslateError('propagation.py: expected one if-statement in _instantiate_vars')
    ctest = _ctest(ifs[0].test)
    then = [ast.unparse(x) for x in ifs[0].body]
    if sorted(then) != ['index_remain = np.arange(n)', 'index_seed = np.arange(n)']:
        raise TranslateError('propagation.py: unrecognised clustering branch of _instantiate_vars')
    other = [ast.unparse(x) for x in ifs[0].orelse]
    if other != ['index_seed = np.argwhere(labels >= 0).ravel()', 'index_remain = np.argwhere(labels < 0).ravel()',
                 'labels = labels[index_seed]']:
        raise TranslateError('propagation.py: unrecognised seed branch of _instantiate_vars')
    fit = _func(tree, 'fit', cls='Propagation')
    ones = None
    orders = []
    for n in ast.walk(fit):
        if isinstance(n, ast.If) and ast.unparse(n.test) == 'self.weighted':
            if len(n.orelse) != 1 or not isinstance(n.orelse[0], ast.Assign) or ast.unparse(n.orelse[0].targets[0]) != 'data':
                raise TranslateError('propagation.py: unrecognised unweighted branch')
            if ast.unparse(n.body[0]) != 'data = adjacency.data.astype(np.float32)':
                raise TranslateError('propagation.py: unrecognised weighted branch')
            call = n.orelse[0].value
            if not (isinstance(call, ast.Call) and ast.unparse(call.func) in ('np.ones', 'np.ones_like') and call.args):
                raise TranslateError('propagation.py: unweighted data is not np.ones(...)')
            arg = ast.unparse(call.args[0])
            if ast.unparse(call.func) == 'np.ones_like':
                if arg not in ('adjacency.data', 'indices', 'adjacency.indices'):
                    raise TranslateError('propagation.py: unrecognised np.ones_like argument %r' % arg)
                ones = 'Ones_nnz'
            elif arg == 'n':
                ones = 'Ones_n'
            elif arg in _NNZ:
                ones = 'Ones_nnz'
            else:
                raise TranslateError('propagation.py: unrecognised length of the vector of ones %r' % arg)
        if isinstance(n, ast.Assign) and ast.unparse(n.targets[0]) == 'index_remain' and \
                isinstance(n.value, ast.Subscript) and ast.unparse(n.value.value) == 'index':
            orders.append(ast.unparse(n.value.slice))
    if ones is None:
        raise TranslateError('propagation.py: `if self.weighted` not found in fit')
    if len(orders) != 2 or orders[0] != orders[1]:
        raise TranslateError('propagation.py: expected two identical `index_remain = index[...]` assignments')
    if orders[0] == 'index_remain':
        order = 'OI_position'
    elif orders[0] in ('np.isin(index, index_remain)', 'np.in1d(index, index_remain)'):
        order = 'OI_filter'
    else:
        raise TranslateError('propagation.py: unrecognised reordering index[%s]' % orders[0])
    src = ast.unparse(fit)
    for needle in ('index = np.argsort(-adjacency.T.dot(np.ones(n))).astype(np.int32)',
                   'index = np.argsort(adjacency.T.dot(np.ones(n))).astype(np.int32)',
                   'np.random.shuffle(index_remain)',
                   'while t < self.n_iter and (not np.array_equal(labels_remain, labels[index_remain])):',
                   'labels = np.asarray(vote_update(indptr, indices, data, labels, index_remain))'):
        if needle not in src:
            raise TranslateError('propagation.py: expected `%s` in fit' % needle)
    return ctest, ones, order


def gen_vote_consts():
    wpos, clr, vlab = _kernel()
    ctest, ones, order = _propagation()
    b = lambda x: 'true' if x else 'false'
    return '\n'.join([
        '(* generated from sknetwork/classification/vote.pyx and propagation.py *)',
        'From SKN Require Import Model.Vote Model.Classify.',
        'Definition src_kernel : kvariant := {| wpos := %s; clr := %s; vlab := %s |}.' % (b(wpos), b(clr), b(vlab)),
        'Definition src_variant : pvariant :=',
        '  {| pv_kernel := src_kernel; pv_ctest := %s; pv_ones := %s; pv_order := %s |}.' % (ctest, ones, order),
    ]) + '\n'


FILES = {'VoteConsts.v': gen_vote_consts}

"""Which `self.<attr>` can carry information from an earlier `fit` into the next one (C16, static tie).

For every concrete class of sknetwork/ that defines or inherits `fit` (concrete: the `fit` found through the C3 MRO is
not just `raise NotImplementedError`), an intra-class, inter-method flow analysis over `self.<attr>` (Python `ast`;
`self.m(...)`, `super().m(...)`, `super(K, self).m(...)`, `Base.m(self, ...)` are followed through the MRO, each callee
analysed in the calling context and memoised on (method, set of definitely written attributes) - a fixed point):

  config              attributes assigned anywhere in the `__init__` chain (helpers such as `_init_vars()` included)
  reads_first         attributes that MAY be read during `fit` (plain load, hasattr/getattr, augmented assignment,
                      mutation through the attribute or through a local alias of it) at a point where they have not
                      been DEFINITELY written earlier in the same call
  definite write      `self.x = ...` on every path: straight-line code and both branches of an `if` (a branch that always
                      returns/raises does not count against the other); NOT the body of a loop, `try`, `with`, nested
                      function, comprehension, lambda, nor the short-circuited operands of and/or/if-else/chained
                      comparisons; a write in a called method counts iff it is definite in that method (on all its
                      return paths).  A definite `_init_vars()`-style reset is a definite write of what it assigns.
  stale_reads         reads_first - config
  config_overwritten  config attributes that fit assigns or mutates, with the flag "read before fit's own definite write"
  stale_outputs       attributes assigned in a method reachable from fit or from a `fit_*` wrapper (the wrappers call fit
                      and contribute assignments only) that are not definitely written at every normal exit of `fit`

Mutation through an attribute (`self.x[i] = v`, `self.x.y = v`, `self.x.m(...)` with m not in PURE_METHODS, `x(...)`,
the same through a local alias `v = self.x[...]` / `for v in self.x`) is a read plus a non-definite write of x.
`self` handed to a foreign callable is reported as the pseudo attribute `<self escapes to f>`.

Three refinements, each reported in its own generated list (and pinned by the obligation in Props/C16.v):
  accumulators   an attribute that NO method of the class (whole MRO) reads except to append to it (`self.x += e`): nothing
                 flows out of it (the Log transcript); excluded from the derived all_* lists, listed in
                 fit_state_accumulators.  Not granted when `self` escapes or is used reflectively (except the reviewed
                 Algorithm.get_params / set_params, which touch constructor-parameter names only).
  delegations    `self.x.fit*(...)` on the whole object held in x (or a direct alias `v = self.x`) refits a sub-estimator:
                 not a mutation; reading `self.x.<attr>` BEFORE the definite delegation of the same call is a stale read
                 of x.  Listed in fit_state_delegations.
  entry assumption  ENTRY_ASSUME fixes an argument of `fit` (GNNClassifier: reinit=True, its documented refit-from-scratch
                 mode; without it `fit` continues training by design).  Listed in fit_state_entry_assumptions.
Fails closed (TranslateError) on syntax it does not model (decorators other than static/class/abstractmethod, nested
classes, del self.x, reflective access with a non-constant name, yield, match, ...) and on a base class of an estimator
that it cannot resolve inside sknetwork (other than ABC / object).  Classes without `fit` whose ancestry leaves sknetwork
(LinearOperator subclasses, Dataset(dict)) are listed in fit_state_skipped_external and not analysed.
"""
import ast
import glob
import os

from ..translate import TranslateError, _cstr, _bool
from ..common import REPO

IGNORED_BASES = ('ABC', 'object')
# methods of NumPy / SciPy / builtin values that do not modify their receiver
PURE_METHODS = frozenset("""copy astype dot lower upper sum mean max min tocsr tocsc tocoo toarray transpose items keys
values get format reshape ravel any all argmax argmin startswith endswith index count nonzero flatten tolist conj
diagonal multiply power std var cumsum round clip join split strip""".split())
# methods that are pure because every definition of that name inside sknetwork is a @staticmethod (checked on every run)
STATIC_ONLY = ('loss', 'loss_gradient', 'gradient')
# documented "refit from scratch" mode of an estimator whose fit otherwise continues training: fit is analysed with this
# argument fixed (the run-time history sweep calls it the same way)
ENTRY_ASSUME = {'GNNClassifier': {'reinit': True}}
# reflective methods reviewed by hand: they touch only attributes named like constructor parameters
# (get_params reads self.__dict__[p] for p in the signature of __init__, set_params setattr()s only those names)
REFLECTIVE_OK = (('Algorithm', 'get_params'), ('Algorithm', 'set_params'))
ALIAS_WRAPPERS = ('enumerate', 'reversed', 'list', 'tuple', 'zip', 'sorted', 'iter')


class _Cls:
    def __init__(self, mod, rel, node):
        self.mod, self.rel, self.node, self.name = mod, rel, node, node.name
        self.methods, self.static = {}, set()
        for n in node.body:
            if isinstance(n, (ast.FunctionDef, ast.AsyncFunctionDef)):
                if isinstance(n, ast.AsyncFunctionDef):
                    raise TranslateError('async method %s.%s' % (node.name, n.name))
                decos = [ast.unparse(d) for d in n.decorator_list]
                for d in decos:
                    if d not in ('staticmethod', 'classmethod', 'abstractmethod', 'abc.abstractmethod'):
                        raise TranslateError('unsupported decorator @%s on %s.%s' % (d, node.name, n.name))
                if 'staticmethod' in decos or 'classmethod' in decos:
                    self.static.add(n.name)
                self.methods[n.name] = n
            elif isinstance(n, ast.ClassDef):
                raise TranslateError('nested class in %s' % node.name)
        self.bases = None      # list of _Cls
        self.external = []     # names of bases outside sknetwork (other than ABC / object)


def _modname(rel):
    p = rel[:-3].split(os.sep)
    if p[-1] == '__init__':
        p = p[:-1]
    return '.'.join(p)


def _load():
    mods = {}     # modname -> dict(classes={name: _Cls}, imports={local: (module, name)}, star=[modules])
    for p in sorted(glob.glob(os.path.join(REPO, 'sknetwork', '**', '*.py'), recursive=True)):
        rel = os.path.relpath(p, REPO)
        base = os.path.basename(rel)
        if (os.sep + 'tests' + os.sep) in rel or base.startswith('test_'):
            continue
        tree = ast.parse(open(p).read())
        m = dict(classes={}, imports={}, star=[], rel=rel)
        for n in tree.body:
            if isinstance(n, ast.ClassDef):
                if n.name in m['classes']:
                    raise TranslateError('class %s defined twice in %s' % (n.name, rel))
                m['classes'][n.name] = n
            elif isinstance(n, ast.ImportFrom):
                if n.level:
                    pkg = _modname(rel).split('.')
                    if base != '__init__.py':
                        pkg = pkg[:-1]
                    pkg = pkg[:len(pkg) - (n.level - 1)]
                    src = '.'.join(pkg + ([n.module] if n.module else []))
                else:
                    src = n.module
                for a in n.names:
                    if a.name == '*':
                        m['star'].append(src)
                    else:
                        m['imports'][a.asname or a.name] = (src, a.name)
        mods[_modname(rel)] = m
    return mods


class _World:
    def __init__(self):
        self.mods = _load()
        self.cls = {}      # (modname, name) -> _Cls

    def get(self, mod, name):
        key = (mod, name)
        if key not in self.cls:
            c = _Cls(mod, self.mods[mod]['rel'], self.mods[mod]['classes'][name])
            self.cls[key] = c
            c.bases = []
            for b in c.node.bases:
                if isinstance(b, ast.Name) and b.id in IGNORED_BASES:
                    continue
                r = self.resolve(mod, b.id, 0) if isinstance(b, ast.Name) else None
                if r is None:
                    c.external.append(ast.unparse(b))
                else:
                    c.bases.append(r)
            if c.node.keywords:
                raise TranslateError('class keywords (metaclass) on %s' % name)
        return self.cls[key]

    def resolve(self, mod, name, depth):
        """The sknetwork class that `name` denotes inside module `mod`, or None when it comes from outside sknetwork."""
        if depth > 8:
            raise TranslateError('import chain too long for %s' % name)
        m = self.mods.get(mod)
        if m is None:
            if mod.split('.')[0] == 'sknetwork':
                raise TranslateError('cannot find module %s (looking for %s)' % (mod, name))
            return None
        if name in m['classes']:
            return self.get(mod, name)
        if name in m['imports']:
            src, orig = m['imports'][name]
            if src.split('.')[0] != 'sknetwork':
                return None
            r = self.resolve(src, orig, depth + 1)
            if r is None:
                raise TranslateError('cannot resolve %s imported from %s' % (orig, src))
            return r
        for src in m['star']:
            if src.split('.')[0] == 'sknetwork':
                try:
                    r = self.resolve(src, name, depth + 1)
                except TranslateError:
                    r = None
                if r is not None:
                    return r
        if depth == 0:
            import builtins
            if hasattr(builtins, name):
                return None
            raise TranslateError('base class %s of a class in %s is neither defined nor imported there' % (name, mod))
        return None

    def mro(self, c, seen=()):
        if c in seen:
            raise TranslateError('inheritance cycle at %s' % c.name)
        seqs = [self.mro(b, seen + (c,)) for b in c.bases] + [list(c.bases)]
        out = [c]
        seqs = [list(s) for s in seqs if s]
        while seqs:
            for s in seqs:
                h = s[0]
                if not any(h in t[1:] for t in seqs):
                    break
            else:
                raise TranslateError('no consistent MRO for %s' % c.name)
            out.append(h)
            seqs = [[x for x in s if x is not h] for s in seqs]
            seqs = [s for s in seqs if s]
        return out


def _is_abstract_body(fn):
    body = [s for s in fn.body if not (isinstance(s, ast.Expr) and isinstance(s.value, ast.Constant))]
    return all(isinstance(s, ast.Pass) or (isinstance(s, ast.Raise) and s.exc is not None and 'NotImplementedError' in ast.unparse(s.exc))
               for s in body)


def _meet(a, b):
    """None = unreachable."""
    if a is None:
        return b
    if b is None:
        return a
    return a & b


class _Flow:
    """Analysis of one concrete class."""

    def __init__(self, world, cls):
        self.world, self.cls = world, cls
        self.mro = world.mro(cls)
        for k in self.mro:
            if k.external:
                raise TranslateError('%s: base %s of %s cannot be resolved inside sknetwork' % (cls.name, k.external[0], k.name))
        self.reset()

    def reset(self):
        self.reads_first, self.assigned, self.mutated = set(), set(), set()
        self.delegations, self.sub_reads_first = set(), set()
        self.memo = {}

    def find(self, name, start=0):
        for i in range(start, len(self.mro)):
            if name in self.mro[i].methods:
                return i, self.mro[i].methods[name]
        return None

    def method_names(self):
        out = set()
        for k in self.mro:
            out |= set(k.methods)
        return out

    def accumulators(self):
        """Attributes that no method of the class (whole MRO) ever reads except to append to them (`self.x += e`):
        their value flows nowhere else.  Empty as soon as `self` is used in a way that is not understood."""
        ok, bad = set(), set()
        for k in self.mro:
            for fn in k.methods.values():
                if fn.name in k.static or (k.name, fn.name) in REFLECTIVE_OK:
                    continue
                pos = fn.args.posonlyargs + fn.args.args
                if not pos:
                    return set()
                sn = pos[0].arg
                parent = {}
                for n in ast.walk(fn):
                    for c in ast.iter_child_nodes(n):
                        parent[c] = n
                for n in ast.walk(fn):
                    if not (isinstance(n, ast.Name) and n.id == sn):
                        continue
                    par = parent.get(n)
                    if isinstance(par, ast.Attribute) and par.value is n:
                        gp = parent.get(par)
                        if isinstance(gp, ast.AugAssign) and gp.target is par:
                            inner = [m for m in ast.walk(gp.value) if isinstance(m, ast.Name) and m.id == sn]
                            (bad if inner else ok).add(par.attr)
                        elif isinstance(par.ctx, ast.Store) and isinstance(gp, (ast.Assign, ast.AnnAssign)):
                            pass
                        else:
                            bad.add(par.attr)
                    elif isinstance(par, ast.Return):
                        pass
                    elif isinstance(par, ast.Call) and isinstance(par.func, ast.Name) and par.func.id == 'super':
                        pass
                    elif isinstance(par, ast.Call) and isinstance(par.func, ast.Name) and par.func.id in ('hasattr', 'getattr') \
                            and len(par.args) >= 2 and par.args[0] is n and isinstance(par.args[1], ast.Constant):
                        bad.add(par.args[1].value)
                    elif isinstance(par, ast.Call) and isinstance(par.func, ast.Attribute) and isinstance(par.func.value, ast.Name) \
                            and par.args and par.args[0] is n and any(c.name == par.func.value.id for c in self.mro):
                        pass
                    else:
                        return set()
        for k in self.mro:       # the reflective methods can reach attributes named like constructor parameters
            if '__init__' in k.methods:
                a = k.methods['__init__'].args
                bad |= {x.arg for x in a.posonlyargs + a.args + a.kwonlyargs}
        return ok - bad

    # -- methods --------------------------------------------------------------------------------
    def call(self, name, start, D, assume=None):
        """Definitely-written set after `self.<name>(...)` entered with D (None when the callee never returns)."""
        r = self.find(name, start)
        if r is None:
            raise TranslateError('%s: call of unknown method %s' % (self.cls.name, name))
        idx, fn = r
        key = (idx, name, frozenset(D))
        if key in self.memo:
            got = self.memo[key]
            return set(D) if got == 'busy' else (None if got is None else set(got))
        self.memo[key] = 'busy'      # recursion: no definite write credited, reads/writes collected by the outer analysis
        out = _Func(self, idx, fn, assume).run(set(D))
        self.memo[key] = None if out is None else frozenset(out)
        return out

    def read(self, attr, D):
        if attr not in D:
            self.reads_first.add(attr)

    def mutate(self, attr, D):
        self.mutated.add(attr)
        if attr not in D:
            self.reads_first.add(attr)


class _Func:
    """One activation of a method body."""

    def __init__(self, flow, idx, fn, assume=None):
        self.flow, self.idx, self.fn = flow, idx, fn
        owner = flow.mro[idx]
        self.assume = {}
        if assume:
            params = [x.arg for x in fn.args.posonlyargs + fn.args.args + fn.args.kwonlyargs]
            stored = {x.id for x in ast.walk(fn) if isinstance(x, ast.Name) and isinstance(x.ctx, (ast.Store, ast.Del))}
            for k, v in assume.items():
                if k not in params or k in stored:
                    raise TranslateError('%s.%s: assumed argument %s is not a parameter or is reassigned' % (owner.name, fn.name, k))
            self.assume = dict(assume)
        a = fn.args
        if fn.name in owner.static:
            self.selfname = None
        else:
            pos = a.posonlyargs + a.args
            if not pos:
                raise TranslateError('%s.%s has no self parameter' % (owner.name, fn.name))
            self.selfname = pos[0].arg
        self.where = '%s.%s' % (owner.name, fn.name)
        self.exits = []
        self.alias = self.aliases()

    # -- aliases (flow-insensitive): local name -> set of self attributes its value may be (part of) ---------------
    def root(self, e):
        """self attribute at the root of an access path (self.x, self.x[i].y, alias[i], f(self.x) for wrapper f)."""
        while True:
            if isinstance(e, ast.Attribute):
                if isinstance(e.value, ast.Name) and e.value.id == self.selfname and self.selfname:
                    return {e.attr}
                e = e.value
            elif isinstance(e, ast.Subscript):
                e = e.value
            elif isinstance(e, ast.Starred):
                e = e.value
            elif isinstance(e, ast.Call) and isinstance(e.func, ast.Name) and e.func.id in ALIAS_WRAPPERS:
                out = set()
                for x in e.args:
                    out |= self.root(x)
                return out
            elif isinstance(e, ast.Name):
                return set(getattr(self, 'alias', {}).get(e.id, ()))
            else:
                return set()

    def aliases(self):
        self.alias = {}
        if not self.selfname:
            return {}
        pairs = []
        for n in ast.walk(self.fn):
            if isinstance(n, ast.Assign):
                for t in n.targets:
                    pairs.append((t, n.value))
            elif isinstance(n, (ast.AnnAssign, ast.NamedExpr)) and n.value is not None:
                pairs.append((n.target, n.value))
            elif isinstance(n, (ast.For, ast.comprehension)):
                pairs.append((n.target, n.iter))
            elif isinstance(n, ast.withitem) and n.optional_vars is not None:
                pairs.append((n.optional_vars, n.context_expr))
        # direct aliases: a local name bound exactly once, to `self.x` itself (the whole object)
        stores = {}
        for n in ast.walk(self.fn):
            if isinstance(n, ast.Name) and isinstance(n.ctx, (ast.Store, ast.Del)):
                stores[n.id] = stores.get(n.id, 0) + 1
        params = {x.arg for x in self.fn.args.posonlyargs + self.fn.args.args + self.fn.args.kwonlyargs}
        self.direct = {}
        for t, v in pairs:
            if isinstance(t, ast.Name) and stores.get(t.id) == 1 and t.id not in params and self.is_self_attr(v):
                self.direct[t.id] = v.attr
        changed = True
        while changed:
            changed = False
            for t, v in pairs:
                r = self.root(v)
                if not r:
                    continue
                for nm in [x.id for x in ast.walk(t) if isinstance(x, ast.Name) and x.id != self.selfname]:
                    if not r <= self.alias.get(nm, set()):
                        self.alias.setdefault(nm, set()).update(r)
                        changed = True
        return self.alias

    # -- driver ----------------------------------------------------------------------------------------------------
    def whole(self, e):
        """x when e denotes the whole object held in self.x (self.x itself or a direct alias of it)."""
        if self.is_self_attr(e):
            return e.attr
        if isinstance(e, ast.Name):
            return getattr(self, 'direct', {}).get(e.id)
        return None

    def run(self, D):
        a = self.fn.args
        for d in list(a.defaults) + [k for k in a.kw_defaults if k is not None]:
            if any(isinstance(x, ast.Name) and x.id == self.selfname for x in ast.walk(d)):
                raise TranslateError('self in a default of ' + self.where)
        end = self.block(self.fn.body, D)
        if end is not None:
            self.exits.append(end)
        out = None
        for e in self.exits:
            out = _meet(out, e)
        return out

    def block(self, stmts, D):
        for s in stmts:
            if D is None:
                break
            D = self.stmt(s, D)
        return D

    def side(self, stmts, D):
        """A block whose execution is not certain: effects recorded, no definite write, its returns are not exits."""
        saved = self.exits
        self.exits = []
        self.block(stmts, set(D))
        self.exits = saved

    def stmt(self, s, D):
        f = self.flow
        if isinstance(s, ast.Expr):
            return self.expr(s.value, D)
        if isinstance(s, ast.Assign):
            D = self.expr(s.value, D)
            for t in s.targets:
                D = self.target(t, D)
            return D
        if isinstance(s, ast.AnnAssign):
            if s.value is None:
                return D
            D = self.expr(s.value, D)
            return self.target(s.target, D)
        if isinstance(s, ast.AugAssign):
            t = s.target
            if self.is_self_attr(t):
                f.read(t.attr, D)
                D = self.expr(s.value, D)
                f.assigned.add(t.attr)
                return D | {t.attr}
            if isinstance(t, ast.Name):
                D = self.expr(s.value, D)
                for x in self.alias.get(t.id, ()):
                    f.mutate(x, D)      # `v += w` on an alias of a mutable attribute works in place
                return D
            D = self.expr(s.value, D)
            return self.target(t, D)
        if isinstance(s, ast.Return):
            if s.value is not None and not (isinstance(s.value, ast.Name) and s.value.id == self.selfname):
                D = self.expr(s.value, D)
            if D is not None:
                self.exits.append(D)
            return None
        if isinstance(s, ast.Raise):
            if s.exc is not None:
                self.expr(s.exc, D)
            return None
        if isinstance(s, ast.If):
            if isinstance(s.test, ast.Name) and s.test.id in self.assume:
                return self.block(s.body if self.assume[s.test.id] else s.orelse, D)
            D = self.expr(s.test, D)
            if D is None:
                return None
            return _meet(self.block(s.body, set(D)), self.block(s.orelse, set(D)))
        if isinstance(s, (ast.For, ast.While)):
            if isinstance(s, ast.For):
                D = self.expr(s.iter, D)
                if D is None:
                    return None
                self.side([ast.Assign(targets=[s.target], value=ast.Constant(value=None))], D)
            else:
                D = self.expr(s.test, D)
                if D is None:
                    return None
            saved = self.exits
            inner = []
            self.exits = inner
            self.block(s.body, set(D))
            self.block(s.orelse, set(D))
            self.exits = saved + inner      # a `return` inside a loop is a real exit of the method
            return D
        if isinstance(s, (ast.Break, ast.Continue)):
            return None
        if isinstance(s, ast.Try) or s.__class__.__name__ == 'TryStar':
            for blk in [s.body] + [h.body for h in s.handlers] + [s.orelse, s.finalbody]:
                saved = self.exits
                inner = []
                self.exits = inner
                self.block(blk, set(D))
                self.exits = saved + inner
            return D
        if isinstance(s, ast.With):
            for it in s.items:
                D = self.expr(it.context_expr, D)
                if D is None:
                    return None
                if it.optional_vars is not None:
                    self.side([ast.Assign(targets=[it.optional_vars], value=ast.Constant(value=None))], D)
            saved = self.exits
            inner = []
            self.exits = inner
            self.block(s.body, set(D))
            self.exits = saved + inner
            return D
        if isinstance(s, ast.Assert):
            D = self.expr(s.test, D)
            if s.msg is not None and D is not None:
                self.expr(s.msg, set(D))
            return D
        if isinstance(s, ast.FunctionDef):
            for d in s.decorator_list + s.args.defaults + [k for k in s.args.kw_defaults if k is not None]:
                D = self.expr(d, D)
            self.side(s.body, D)
            return D
        if isinstance(s, ast.Delete):
            for t in s.targets:
                if self.is_self_attr(t):
                    raise TranslateError('del self.%s in %s' % (t.attr, self.where))
                D = self.target(t, D)
            return D
        if isinstance(s, (ast.Pass, ast.Import, ast.ImportFrom, ast.Global, ast.Nonlocal)):
            return D
        raise TranslateError('unsupported statement %s in %s' % (type(s).__name__, self.where))

    # -- assignment targets -------------------------------------------------------------------------------------------
    def is_self_attr(self, e):
        return isinstance(e, ast.Attribute) and isinstance(e.value, ast.Name) and self.selfname and e.value.id == self.selfname

    def target(self, t, D):
        f = self.flow
        if self.is_self_attr(t):
            f.assigned.add(t.attr)
            return (D - {t.attr + '.*'}) | {t.attr}
        if isinstance(t, ast.Name):
            if t.id == self.selfname:
                raise TranslateError('assignment to self in ' + self.where)
            return D
        if isinstance(t, (ast.Tuple, ast.List)):
            for x in t.elts:
                D = self.target(x, D)
            return D
        if isinstance(t, ast.Starred):
            return self.target(t.value, D)
        if isinstance(t, (ast.Attribute, ast.Subscript)):
            # store through an object: evaluate the path (reads), then it is a mutation of the root attribute
            D = self.expr(t.value, D)
            if isinstance(t, ast.Subscript) and D is not None:
                D = self.expr(t.slice, D)
            if D is not None:
                for x in self.root(t.value):
                    f.mutate(x, D)
            return D
        raise TranslateError('unsupported assignment target %s in %s' % (type(t).__name__, self.where))

    # -- expressions (evaluation order; returns the definitely-written set afterwards) ----------------------------------
    def maybe(self, e, D):
        """Sub-expression that is not certainly evaluated."""
        if e is not None and D is not None:
            saved = self.exits
            self.exits = []
            self.expr(e, set(D))
            self.exits = saved

    def seq(self, es, D):
        for e in es:
            if D is None:
                return None
            if e is not None:
                D = self.expr(e, D)
        return D

    def expr(self, e, D):
        f = self.flow
        if D is None:
            return None
        if isinstance(e, ast.Constant):
            return D
        if isinstance(e, ast.Name):
            if e.id == self.selfname and self.selfname:
                f.reads_first.add('<self escapes in %s>' % self.where)
            return D
        if isinstance(e, ast.Attribute):
            if self.is_self_attr(e):
                if not isinstance(e.ctx, ast.Load):
                    raise TranslateError('store context reached expr() in ' + self.where)
                if e.attr in f.method_names():
                    # bound method taken as a value: it may be called later
                    self.maybe_call(e.attr, 0, D)
                    return D
                f.read(e.attr, D)
                return D
            x = self.whole(e.value)
            if x is not None and (x + '.*') not in D:
                f.sub_reads_first.add(x)      # state of the object in self.x read before self.x.fit*(...) in this call
            return self.expr(e.value, D)
        if isinstance(e, ast.Call):
            return self.call(e, D)
        if isinstance(e, ast.BoolOp):
            D = self.expr(e.values[0], D)
            for v in e.values[1:]:
                self.maybe(v, D)
            return D
        if isinstance(e, ast.IfExp):
            D = self.expr(e.test, D)
            self.maybe(e.body, D)
            self.maybe(e.orelse, D)
            return D
        if isinstance(e, ast.Compare):
            D = self.expr(e.left, D)
            D = self.expr(e.comparators[0], D)
            for v in e.comparators[1:]:
                self.maybe(v, D)
            return D
        if isinstance(e, ast.Lambda):
            self.maybe(e.body, D)
            return D
        if isinstance(e, (ast.ListComp, ast.SetComp, ast.GeneratorExp, ast.DictComp)):
            D = self.expr(e.generators[0].iter, D)
            rest = []
            for k, g in enumerate(e.generators):
                if k:
                    rest.append(g.iter)
                rest += g.ifs
            rest += [e.key, e.value] if isinstance(e, ast.DictComp) else [e.elt]
            for x in rest:
                self.maybe(x, D)
            return D
        if isinstance(e, ast.NamedExpr):
            D = self.expr(e.value, D)
            return self.target(e.target, D)
        if isinstance(e, (ast.Yield, ast.YieldFrom, ast.Await)):
            raise TranslateError('generator / coroutine in ' + self.where)
        if isinstance(e, (ast.BinOp, ast.UnaryOp, ast.Subscript, ast.Starred, ast.Tuple, ast.List, ast.Set, ast.Dict,
                          ast.JoinedStr, ast.FormattedValue, ast.Slice)):
            return self.seq([c for c in ast.iter_child_nodes(e) if isinstance(c, ast.expr)], D)
        raise TranslateError('unsupported expression %s in %s' % (type(e).__name__, self.where))

    def maybe_call(self, name, start, D):
        saved = self.exits
        self.exits = []
        self.flow.call(name, start, set(D))
        self.exits = saved

    def args_of(self, c, D, skip_first=False):
        args = c.args[1:] if skip_first else c.args
        for a in args:
            if isinstance(a, ast.Starred) and isinstance(a.value, ast.Name) and a.value.id == self.selfname:
                raise TranslateError('*self in ' + self.where)
        D = self.seq(args, D)
        return self.seq([k.value for k in c.keywords], D)

    def call(self, c, D):
        f = self.flow
        fn = c.func
        sn = self.selfname
        # self.m(...)
        if isinstance(fn, ast.Attribute) and self.is_self_attr(fn):
            if f.find(fn.attr) is not None:
                D = self.args_of(c, D)
                return None if D is None else f.call(fn.attr, 0, D)
            # an attribute holding a callable
            f.read(fn.attr, D)
            D = self.args_of(c, D)
            if D is not None:
                f.mutate(fn.attr, D)
            return D
        # super().m(...) / super(K, self).m(...)
        if isinstance(fn, ast.Attribute) and isinstance(fn.value, ast.Call) and isinstance(fn.value.func, ast.Name) \
                and fn.value.func.id == 'super':
            sa = fn.value.args
            if not sa:
                start = self.idx + 1
            elif len(sa) == 2 and isinstance(sa[0], ast.Name) and isinstance(sa[1], ast.Name) and sa[1].id == sn:
                ks = [i for i, k in enumerate(f.mro) if k.name == sa[0].id]
                if len(ks) != 1:
                    raise TranslateError('super(%s, self) in %s: class not in the MRO of %s' % (sa[0].id, self.where, f.cls.name))
                start = ks[0] + 1
            else:
                raise TranslateError('unsupported super(...) in ' + self.where)
            D = self.args_of(c, D)
            if D is None:
                return None
            if f.find(fn.attr, start) is None:
                if fn.attr == '__init__':
                    return D      # object.__init__
                raise TranslateError('%s: super().%s not found' % (self.where, fn.attr))
            return f.call(fn.attr, start, D)
        # Base.m(self, ...)
        if isinstance(fn, ast.Attribute) and isinstance(fn.value, ast.Name) and c.args and isinstance(c.args[0], ast.Name) \
                and sn and c.args[0].id == sn:
            ks = [i for i, k in enumerate(f.mro) if k.name == fn.value.id]
            if len(ks) != 1:
                raise TranslateError('%s: %s.%s(self, ...) with a class outside the MRO' % (self.where, fn.value.id, fn.attr))
            D = self.args_of(c, D, skip_first=True)
            if D is None:
                return None
            if f.find(fn.attr, ks[0]) is None:
                raise TranslateError('%s: %s.%s not found' % (self.where, fn.value.id, fn.attr))
            return f.call(fn.attr, ks[0], D)
        # hasattr(self, 'x') / getattr(self, 'x'[, d]) / setattr(self, 'x', v)
        if isinstance(fn, ast.Name) and fn.id in ('hasattr', 'getattr', 'setattr', 'delattr', 'vars') and c.args \
                and isinstance(c.args[0], ast.Name) and sn and c.args[0].id == sn:
            if fn.id in ('delattr', 'vars') or len(c.args) < 2 or not (isinstance(c.args[1], ast.Constant) and isinstance(c.args[1].value, str)):
                raise TranslateError('reflective access to self in ' + self.where)
            name = c.args[1].value
            if fn.id == 'setattr':
                D = self.seq(c.args[2:], D)
                f.assigned.add(name)
                return D | {name}
            f.read(name, D)
            return self.seq(c.args[2:], D)
        if isinstance(fn, ast.Name) and fn.id == 'super':
            raise TranslateError('bare super() value in ' + self.where)
        # generic call
        if isinstance(fn, ast.Attribute):
            D = self.expr(fn.value, D)
        elif not isinstance(fn, ast.Name):
            D = self.expr(fn, D)
        if D is None:
            return None
        desc = ast.unparse(fn)
        for a in list(c.args) + [k.value for k in c.keywords]:
            if isinstance(a, ast.Name) and sn and a.id == sn:
                f.reads_first.add('<self escapes to %s>' % desc)
            elif D is not None:
                D = self.expr(a, D)
        if D is None:
            return None
        if isinstance(fn, ast.Attribute):
            x = self.whole(fn.value)
            if x is not None and (fn.attr == 'fit' or fn.attr.startswith('fit_')):
                # delegation: the sub-estimator held in self.x is refitted as a whole (its own facts say what that means)
                f.delegations.add((x, fn.attr))
                return D | {x + '.*'}
            if fn.attr not in PURE_METHODS and fn.attr not in STATIC_ONLY:
                for x in self.root(fn.value):
                    f.mutate(x, D)
        elif isinstance(fn, ast.Name):
            for x in self.alias.get(fn.id, ()):
                f.mutate(x, D)       # calling an object stored in (or taken from) an attribute
        else:
            for x in self.root(fn):
                f.mutate(x, D)
        return D


def analyse():
    world = _World()
    for mod in sorted(world.mods):
        for name in sorted(world.mods[mod]['classes']):
            world.get(mod, name)
    facts, skipped, assumed, accumulators, delegations = [], [], [], [], []
    names = {}
    for key in sorted(world.cls):
        for m in STATIC_ONLY:
            if m in world.cls[key].methods and m not in world.cls[key].static:
                raise TranslateError('%s.%s is not a staticmethod' % (world.cls[key].name, m))
    for key in sorted(world.cls):
        c = world.cls[key]
        # does the class define or inherit fit? (through the resolvable part of its ancestry)
        todo, anc = [c], []
        while todo:
            k = todo.pop()
            if k not in anc:
                anc.append(k)
                todo += k.bases
        has_fit = any('fit' in k.methods for k in anc)
        ext = sorted({e for k in anc for e in k.external})
        if not has_fit:
            if ext:
                skipped.append('%s(%s)' % (c.name, ','.join(ext)))
            continue
        flow = _Flow(world, c)       # raises on an unresolvable base
        r = flow.find('fit')
        if r is None or _is_abstract_body(r[1]):
            continue
        if c.name in names:
            raise TranslateError('two estimator classes named %s (%s, %s)' % (c.name, names[c.name], c.rel))
        names[c.name] = c.rel
        # config: everything the __init__ chain assigns
        config = set()
        if flow.find('__init__') is not None:
            flow.call('__init__', 0, set())
            config = set(flow.assigned)
        # fit and its wrappers
        flow.reset()
        assume = ENTRY_ASSUME.get(c.name)
        d_fit = flow.call('fit', 0, set(), assume)
        if d_fit is None:
            raise TranslateError('%s.fit never returns' % c.name)
        if assume:
            assumed += [(c.name, k, v) for k, v in sorted(assume.items())]
        # wrappers (fit_predict, fit_transform, ...) call fit and then only read results: they contribute assignments only
        keep = (set(flow.reads_first), set(flow.mutated))
        for w in sorted(m for m in flow.method_names() if m.startswith('fit_')):
            flow.call(w, 0, set())
        flow.reads_first, flow.mutated = keep
        touched = flow.assigned | flow.mutated
        deleg = {x for x, _ in flow.delegations}
        over = [(a, a in flow.reads_first or a in (deleg & flow.sub_reads_first)) for a in sorted(config & touched)]
        over += [(a, a in flow.sub_reads_first) for a in sorted((config & deleg) - touched)]
        facts.append(dict(
            cls=c.name, config=sorted(config), over=sorted(over),
            stale_reads=sorted((flow.reads_first | (deleg & flow.sub_reads_first)) - config),
            stale_outputs=sorted(flow.assigned - d_fit)))
        acc = flow.accumulators()
        accumulators += [(c.name, a) for a in sorted(acc & (flow.reads_first | flow.assigned))]
        delegations += [(c.name, x, m) for x, m in sorted(flow.delegations)]
    if not facts:
        raise TranslateError('no estimator class found')
    for k in ENTRY_ASSUME:
        if k not in names:
            raise TranslateError('entry assumption for unknown class ' + k)
    facts.sort(key=lambda f: f['cls'])
    return facts, sorted(skipped), sorted(assumed), sorted(accumulators), sorted(delegations)


def gen_fitstate():
    facts, skipped, assumed, accumulators, delegations = analyse()
    out = ['(* generated from every class of sknetwork/**/*.py that defines or inherits fit: see harness/translators/fitstate.py *)',
           'From Coq Require Import String List Bool.', 'Import ListNotations.', 'Open Scope string_scope.',
           'Record fit_state := { fs_class : string; fs_config : list string; fs_config_overwritten : list (string * bool);',
           '                      fs_stale_reads : list string; fs_stale_outputs : list string }.']
    items = []
    for f in facts:
        items.append('{| fs_class := %s;\n     fs_config := [%s];\n     fs_config_overwritten := [%s];\n     fs_stale_reads := [%s];\n     fs_stale_outputs := [%s] |}' % (
            _cstr(f['cls']), '; '.join(_cstr(a) for a in f['config']),
            '; '.join('(%s, %s)' % (_cstr(a), _bool(b)) for a, b in f['over']),
            '; '.join(_cstr(a) for a in f['stale_reads']), '; '.join(_cstr(a) for a in f['stale_outputs'])))
    out.append('Definition fit_state_facts : list fit_state := [\n  %s].' % ';\n  '.join(items))
    out.append('Definition fit_state_classes : list string := map fs_class fit_state_facts.')
    out.append('(* attributes that no method of the class reads except to append to them (self.x += e): nothing flows out of them *)')
    out.append('Definition fit_state_accumulators : list (string * string) := [%s].' %
               '; '.join('(%s, %s)' % (_cstr(a), _cstr(b)) for a, b in accumulators))
    out.append('(* self.x.fit*(...): the sub-estimator held in a constructor-assigned attribute is refitted as a whole *)')
    out.append('Definition fit_state_delegations : list (string * string * string) := [%s].' %
               '; '.join('(%s, %s, %s)' % (_cstr(a), _cstr(b), _cstr(m)) for a, b, m in delegations))
    out.append('Definition is_accumulator (p : string * string) : bool :=\n'
               '  existsb (fun q => String.eqb (fst p) (fst q) && String.eqb (snd p) (snd q)) fit_state_accumulators.')
    out.append('Definition all_stale_reads : list (string * string) :=\n'
               '  filter (fun p => negb (is_accumulator p))\n'
               '    (flat_map (fun f => map (pair (fs_class f)) (fs_stale_reads f)) fit_state_facts).')
    out.append('Definition all_config_overwritten_read_first : list (string * string) :=\n'
               '  filter (fun p => negb (is_accumulator p))\n'
               '    (flat_map (fun f => map (fun p => (fs_class f, fst p)) (filter snd (fs_config_overwritten f))) fit_state_facts).')
    out.append('Definition all_stale_outputs : list (string * string) :=\n'
               '  filter (fun p => negb (is_accumulator p))\n'
               '    (flat_map (fun f => map (pair (fs_class f)) (fs_stale_outputs f)) fit_state_facts).')
    out.append('(* arguments of fit fixed for the analysis (documented refit-from-scratch mode) *)')
    out.append('Definition fit_state_entry_assumptions : list (string * string * bool) := [%s].' %
               '; '.join('(%s, %s, %s)' % (_cstr(a), _cstr(b), _bool(v)) for a, b, v in assumed))
    out.append('(* classes without fit whose ancestry leaves sknetwork (not analysed) *)')
    out.append('Definition fit_state_skipped_external : list string := [%s].' % '; '.join(_cstr(s) for s in skipped))
    return '\n'.join(out) + '\n'


FILES = {'FitState.v': gen_fitstate}

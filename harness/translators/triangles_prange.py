"""Write sets of the `prange` loops of triangles.pyx and of the kernel they call (C11) -> coq/Gen/TrianglesPrange.v.
(The cross-property listing of all prange loops is harness/translators/prange.py -> Gen/Prange.v.)

Line-level scan, fail-closed. For each `for v in prange(...)` loop: the loop variable, every subscripted
assignment in its body (`a[e] = ..`, `a[e] += ..`; array, index text, operator), every scalar
augmented assignment (`x += ..`: the reductions), plain scalar assignments (thread-private in Cython)
and the names called in the body. For triangles.pyx additionally the subscripted assignments inside
the `cdef` function the loop body calls (count_local_triangles_from_dag).
"""
import os
import re

from ..common import REPO
from ..translate import TranslateError, _cstr

TRI = 'sknetwork/topology/triangles.pyx'
_FOR = re.compile(r'^(\s*)for\s+([A-Za-z_]\w*)\s+in\s+prange\s*\((.*)\)\s*:\s*(#.*)?$')
_SUBS = re.compile(r'^\s*([A-Za-z_][\w\.]*)\s*\[(.*)\]\s*(\+|-|\*|/|//|%|\||&|\^)?=(?!=)\s*(.*)$')
_AUG = re.compile(r'^\s*([A-Za-z_][\w\.]*)\s*(\+|-|\*|/|//|%|\||&|\^)=(?!=)\s*(.*)$')
_PLAIN = re.compile(r'^\s*([A-Za-z_]\w*)\s*=(?!=)\s*(.*)$')
_CALL = re.compile(r'([A-Za-z_][\w\.]*)\s*\(')
_KEYWORDS = {'if', 'elif', 'while', 'for', 'range', 'prange', 'and', 'or', 'not', 'in', 'return', 'int', 'float',
             'max', 'min', 'abs', 'len'}
_CONTROL = re.compile(r'^\s*(if|elif|else|while|for|with|return|continue|break|pass)\b')


def _strip(line):
    """Remove a trailing comment (no string literals are expected inside kernels: fail closed on quotes)."""
    if '"' in line or "'" in line:
        raise TranslateError('string literal inside a prange body: %r' % line.strip())
    k = line.find('#')
    return line if k < 0 else line[:k]


def _indent(line):
    return len(line) - len(line.lstrip(' '))


def _body(lines, k):
    """Lines of the block opened by lines[k] (a header ending with ':')."""
    if '\t' in lines[k][:_indent(lines[k]) + 1]:
        raise TranslateError('tab indentation')
    base = _indent(lines[k])
    out = []
    j = k + 1
    while j < len(lines):
        raw = lines[j]
        if raw.strip() == '' or raw.strip().startswith('#'):
            j += 1
            continue
        if raw[:len(raw) - len(raw.lstrip())].count('\t'):
            raise TranslateError('tab indentation in a block')
        if _indent(raw) <= base:
            break
        out.append((j + 1, raw))
        j += 1
    return out


def _scan_block(block):
    writes, reductions, private, calls = [], [], [], []
    for (ln, raw) in block:
        line = _strip(raw).rstrip()
        if line.rstrip().endswith('\\'):
            raise TranslateError('line continuation in a prange body (line %d)' % ln)
        if 'prange' in line:
            raise TranslateError('nested prange (line %d)' % ln)
        if re.match(r'^\s*with\s+gil', line):
            raise TranslateError('with gil inside prange (line %d)' % ln)
        for c in _CALL.findall(line):
            if c not in _KEYWORDS and c not in calls:
                calls.append(c)
        if _CONTROL.match(line):
            continue
        if re.match(r'^\s*cdef\b', line):
            raise TranslateError('declaration inside a prange body (line %d)' % ln)
        m = _SUBS.match(line)
        if m and line.count('=') >= 1 and _balanced(m.group(2)):
            writes.append((m.group(1), m.group(2).strip(), (m.group(3) or '') + '='))
            continue
        m = _AUG.match(line)
        if m:
            reductions.append((m.group(1), m.group(2)))
            continue
        m = _PLAIN.match(line)
        if m:
            private.append(m.group(1))
            continue
        if re.match(r'^\s*[A-Za-z_][\w\.]*\s*\(.*\)\s*$', line):
            continue   # bare call, already recorded
        raise TranslateError('statement not understood in a prange body (line %d): %r' % (ln, line.strip()))
    return writes, reductions, private, calls


def _balanced(s):
    d = 0
    for ch in s:
        if ch == '[':
            d += 1
        elif ch == ']':
            d -= 1
            if d < 0:
                return False
    return d == 0


def _pyx_files():
    out = []
    root = os.path.join(REPO, 'sknetwork')
    for r, _, fs in os.walk(root):
        for f in fs:
            if f.endswith('.pyx'):
                out.append(os.path.relpath(os.path.join(r, f), REPO))
    return sorted(out)


def scan_file(rel):
    lines = open(os.path.join(REPO, rel)).read().split('\n')
    loops = []
    unparsed = []
    for k, raw in enumerate(lines):
        if 'prange' not in raw or raw.strip().startswith('#'):
            continue
        if re.match(r'^\s*(from|import|cimport)\b', raw):
            continue
        m = _FOR.match(raw)
        if not m:
            if re.search(r'\bprange\s*\(', _strip(raw) if ('"' not in raw and "'" not in raw) else ''):
                if rel == TRI:
                    raise TranslateError('%s:%d: prange used outside a plain for-header' % (rel, k + 1))
                unparsed.append((rel, k + 1, 'prange outside a plain for-header'))
            continue   # prose in a docstring
        try:
            w, r, p, c = _scan_block(_body(lines, k))
        except TranslateError as e:
            if rel == TRI:
                raise
            unparsed.append((rel, k + 1, str(e)))   # other kernels: listed, not analysed (not relied upon by C11)
            continue
        loops.append(dict(file=rel, line=k + 1, var=m.group(2), writes=w, reductions=r, private=p, calls=c))
    return loops, lines, unparsed


def _function_block(lines, name, rel):
    hits = [k for k, raw in enumerate(lines) if re.match(r'^\s*(cdef|cpdef|def)\b.*\b%s\s*\(' % re.escape(name), raw)]
    if len(hits) != 1:
        raise TranslateError('%s: expected exactly one definition of %s' % (rel, name))
    k = hits[0]
    while not _strip_safe(lines[k]).rstrip().endswith(':'):
        k += 1
        if k >= len(lines):
            raise TranslateError('header of %s not terminated' % name)
    return _body(lines, k), lines[hits[0]]


def _strip_safe(line):
    k = line.find('#')
    return line if k < 0 else line[:k]


def _body_without_docstring(block):
    out = []
    in_doc = False
    for (ln, raw) in block:
        s = raw.strip()
        if in_doc:
            if s.endswith('"""'):
                in_doc = False
            continue
        if s.startswith('"""'):
            if not (s.endswith('"""') and len(s) >= 6):
                in_doc = True
            continue
        out.append((ln, raw))
    return out


def _coq_loop(l):
    return ('{| pl_file := %s; pl_line := %d; pl_var := %s; pl_writes := [%s]; pl_reductions := [%s]; '
            'pl_private := [%s]; pl_calls := [%s] |}') % (
        _cstr(l['file']), l['line'], _cstr(l['var']),
        '; '.join('(%s, %s, %s)' % (_cstr(a), _cstr(e), _cstr(o)) for a, e, o in l['writes']),
        '; '.join('(%s, %s)' % (_cstr(a), _cstr(o)) for a, o in l['reductions']),
        '; '.join(_cstr(a) for a in l['private']),
        '; '.join(_cstr(a) for a in l['calls']))


def gen_prange():
    all_loops = []
    unparsed = []
    tri_lines = None
    for rel in _pyx_files():
        loops, lines, unp = scan_file(rel)
        all_loops.extend(loops)
        unparsed.extend(unp)
        if rel == 'sknetwork/topology/triangles.pyx':
            tri_lines = lines
    if tri_lines is None:
        raise TranslateError('sknetwork/topology/triangles.pyx not found')
    tri = [l for l in all_loops if l['file'] == 'sknetwork/topology/triangles.pyx']
    # the functions called from the prange bodies of triangles.pyx: their own subscripted assignments
    callee_writes = []
    callee_nogil = True
    for l in tri:
        for c in l['calls']:
            block, header = _function_block(tri_lines, c, 'sknetwork/topology/triangles.pyx')
            if 'nogil' not in header:
                callee_nogil = False
            for (ln, raw) in _body_without_docstring(block):
                line = _strip_safe(raw)
                m = _SUBS.match(line)
                if m and _balanced(m.group(2)) and not re.match(r'^\s*(cdef|if|elif|while|for|return)\b', line):
                    callee_writes.append((c, m.group(1), m.group(2).strip()))
    out = ['(* generated from the .pyx sources of /repo: prange loops and their write sets *)',
           'From Coq Require Import String List.', 'Import ListNotations.', 'Open Scope string_scope.',
           'Record prange_loop := { pl_file : string; pl_line : nat; pl_var : string;',
           '  pl_writes : list (string * string * string); pl_reductions : list (string * string);',
           '  pl_private : list string; pl_calls : list string }.',
           'Definition prange_loops : list prange_loop := [', ';\n'.join('  ' + _coq_loop(l) for l in all_loops), '].',
           'Definition prange_unparsed : list (string * nat) := [%s].' %
           '; '.join('(%s, %d)' % (_cstr(f), ln) for f, ln, _ in unparsed),
           'Definition triangles_prange_loops : list prange_loop := [', ';\n'.join('  ' + _coq_loop(l) for l in tri), '].',
           'Definition triangles_callee_writes : list (string * string * string) := [%s].' %
           '; '.join('(%s, %s, %s)' % (_cstr(a), _cstr(b), _cstr(c)) for a, b, c in callee_writes),
           'Definition triangles_callee_nogil : bool := %s.' % ('true' if callee_nogil else 'false')]
    # front ends: which matrix is oriented into the DAG handed to the kernel (count_triangles) and which degrees enter the number
    # of connected triples (get_clustering_coefficient): the right-hand sides of `dag = ...` and `degrees = ...`, spaces removed
    fronts = {}
    for fn, var in (('count_triangles', 'dag'), ('get_clustering_coefficient', 'degrees')):
        block, _hdr = _function_block(tri_lines, fn, 'sknetwork/topology/triangles.pyx')
        rhs = []
        for (ln, raw) in _body_without_docstring(block):
            line = raw.split('#')[0]
            m = re.match(r'^\s*%s\s*=(?!=)\s*(.*)$' % var, line)
            if m:
                rhs.append(re.sub(r'\s+', '', m.group(1)))
        if not rhs:
            raise TranslateError('%s: no assignment of %s' % (fn, var))
        fronts[fn] = rhs
    out.append('Definition triangles_dag_sources : list string := [%s].' % '; '.join(_cstr(x) for x in fronts['count_triangles']))
    out.append('Definition coefficient_degree_sources : list string := [%s].' %
               '; '.join(_cstr(x.replace(chr(39), '`')) for x in fronts['get_clustering_coefficient']))
    return '\n'.join(out) + '\n'


FILES = {'TrianglesPrange.v': gen_prange}

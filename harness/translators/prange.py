"""Every prange loop of every .pyx, with its shared writes classified, and every source of randomness
that bypasses random_state (C16, C04, C11). Line-level scan; fails closed on anything it cannot classify."""
import ast
import glob
import os
import re

from ..translate import TranslateError, _cstr, _bool
from ..common import REPO

_SUB = re.compile(r'^\s*([A-Za-z_][\w\.]*)\[(.+)\]\s*([-+*/|&]?=)(?!=)')
_AUG = re.compile(r'^\s*([A-Za-z_]\w*)\s*([-+*/]=)')
_CALL = re.compile(r'^\s*([A-Za-z_][\w]*)\.(push|push_back|insert|erase|pop|pop_back|append|add)\(')


def _indent(line):
    return len(line) - len(line.lstrip(' '))


def scan_pyx(path):
    lines = open(path).read().split('\n')
    loops = []
    for i, ln in enumerate(lines):
        m = re.match(r'^(\s*)for\s+(\w+)\s+in\s+prange\((.*)\)\s*:\s*$', ln)
        if 'prange(' in ln and not m and not ln.lstrip().startswith('#') and 'import' not in ln:
            raise TranslateError('unrecognised prange use at %s:%d' % (path, i + 1))
        if not m:
            continue
        ind, var = len(m.group(1)), m.group(2)
        body = []
        for b in lines[i + 1:]:
            if b.strip() == '' or b.lstrip().startswith('#'):
                continue
            if _indent(b) <= ind:
                break
            body.append(b)
        writes, reductions, calls = [], [], []
        for b in body:
            s = _SUB.match(b)
            if s:
                kind = 'Own' if s.group(2).strip() == var else 'Other'
                writes.append((s.group(1), kind, s.group(3)))
                continue
            a = _AUG.match(b)
            if a:
                reductions.append(a.group(1))
                continue
            c = _CALL.match(b)
            if c:
                calls.append(c.group(1) + '.' + c.group(2))
        loops.append((os.path.relpath(path, REPO), var, writes, reductions, calls))
    return loops


def gen_prange():
    out = ['(* generated from every sknetwork/**/*.pyx and the randomness call sites of sknetwork/**/*.py *)',
           'From Coq Require Import String List Bool.', 'Import ListNotations.', 'Open Scope string_scope.',
           'Inductive wkind := Own | Other.',
           'Record prange_loop := { pl_file : string; pl_var : string; pl_writes : list (string * wkind * string);',
           '                        pl_reductions : list string; pl_calls : list string }.']
    loops = []
    for p in sorted(glob.glob(os.path.join(REPO, 'sknetwork', '**', '*.pyx'), recursive=True)):
        loops += scan_pyx(p)
    items = []
    for (f, var, writes, reds, calls) in loops:
        items.append('{| pl_file := %s; pl_var := %s; pl_writes := [%s]; pl_reductions := [%s]; pl_calls := [%s] |}' % (
            _cstr(f), _cstr(var), '; '.join('(%s, %s, %s)' % (_cstr(a), k, _cstr(o)) for a, k, o in writes),
            '; '.join(_cstr(r) for r in reds), '; '.join(_cstr(c) for c in calls)))
    out.append('Definition prange_loops : list prange_loop := [\n  %s].' % ';\n  '.join(items))
    # randomness that does not go through a random_state object
    libc, glob_rng, init_rng = [], [], []
    for p in sorted(glob.glob(os.path.join(REPO, 'sknetwork', '**', '*.pyx'), recursive=True)):
        txt = '\n'.join(ln.split('#')[0] for ln in open(p).read().split('\n'))      # code only: comments may mention rand()
        if re.search(r'\brand\(\)', txt) or re.search(r'cimport\s+.*\b(rand|srand|random)\b', txt):
            libc.append(os.path.relpath(p, REPO))
    for p in sorted(glob.glob(os.path.join(REPO, 'sknetwork', '**', '*.py'), recursive=True)):
        rel = os.path.relpath(p, REPO)
        if '/tests/' in rel or rel.endswith('/test_base.py') or '/data/' in rel:
            continue
        tree = ast.parse(open(p).read())
        for cls in [n for n in ast.walk(tree) if isinstance(n, ast.ClassDef)]:
            for fn in [n for n in cls.body if isinstance(n, ast.FunctionDef)]:
                for c in ast.walk(fn):
                    if isinstance(c, ast.Call):
                        src = ast.unparse(c.func)
                        if src.startswith('np.random.') and not src.startswith('np.random.RandomState') and src != 'np.random.seed':
                            glob_rng.append('%s:%s.%s:%s' % (rel, cls.name, fn.name, src))
                        if src == 'check_random_state' and fn.name == '__init__':
                            init_rng.append('%s:%s' % (rel, cls.name))
    # state that outlives a call: `global x` inside a function (.py and .pyx), module-level `cdef <type> x = value` in a .pyx
    mod_state = []
    for p in sorted(glob.glob(os.path.join(REPO, 'sknetwork', '**', '*.pyx'), recursive=True) +
                    glob.glob(os.path.join(REPO, 'sknetwork', '**', '*.py'), recursive=True)):
        rel = os.path.relpath(p, REPO)
        if '/tests/' in rel:
            continue
        for i, ln in enumerate(open(p).read().split('\n')):
            code = ln.split('#')[0]
            if re.match(r'^\s+global\s+\w', code):
                mod_state.append('%s:global %s' % (rel, code.split('global', 1)[1].strip()))
            if rel.endswith('.pyx') and re.match(r'^cdef\s+[\w\s\[\]:,\*]+?\b(\w+)\s*=\s*[^=]', code) and '(' not in code.split('=')[0]:
                mod_state.append('%s:%s' % (rel, code.strip()))
    out.append('Definition module_state_sites : list string := [%s].' % '; '.join(_cstr(x) for x in sorted(set(mod_state))))
    out.append('Definition libc_rand_files : list string := [%s].' % '; '.join(_cstr(x) for x in sorted(set(libc))))
    out.append('Definition global_rng_sites : list string := [%s].' % '; '.join(_cstr(x) for x in sorted(set(glob_rng))))
    out.append('Definition rng_built_in_init : list string := [%s].' % '; '.join(_cstr(x) for x in sorted(set(init_rng))))
    # ARPACK wrappers pass a start vector
    for rel, fn, name in (('sknetwork/linalg/eig_solver.py', 'eigsh', 'eigsh_has_v0'), ('sknetwork/linalg/svd_solver.py', 'svds', 'svds_has_v0')):
        tree = ast.parse(open(os.path.join(REPO, rel)).read())
        calls = [c for c in ast.walk(tree) if isinstance(c, ast.Call) and ast.unparse(c.func).split('.')[-1] == fn]
        if not calls:
            raise TranslateError('no call of %s in %s' % (fn, rel))
        ok = all(any(k.arg == 'v0' and not (isinstance(k.value, ast.Constant) and k.value.value is None) for k in c.keywords) for c in calls)
        out.append('Definition %s : bool := %s.' % (name, _bool(ok)))
    return '\n'.join(out) + '\n'


FILES = {'Prange.v': gen_prange}

"""sknetwork/gnn/activation.py and sknetwork/gnn/loss.py -> terms of the array-expression language of
coq/Model/NpExpr.v (C19).  The bodies of the static methods output / gradient / loss / loss_gradient are translated
statement by statement from the Python ast; anything outside the recognised subset raises (fail-closed), so the
generated file then lacks the term and every obligation over it fails.

Recognised statements: `x = e`, `x -= e`, `x += e`, the one-hot idiom `x = np.zeros_like(p)` followed by
`x[np.arange(len(l)), l] = 1`, `x[np.arange(n), l] = e` (n bound to len(l)), `if p.shape[1] == 1: ... else: ...` whose
branches assign one common variable, `return e`.  Recognised expressions: names, numeric literals, + - * /, unary minus,
`a > b`, `.T`, `.sum(axis=1)`, `.sum()`, np.maximum, np.log, np.clip, len, special.expit, special.softmax(axis=1),
`p[np.arange(n), l]`, `p[l > 0].sum()`, `p[l == 0].sum()`, and calls of another translated static method."""
import ast
from decimal import Decimal

from ..translate import TranslateError, _src, _cstr

UNITS = [
    ('sknetwork/gnn/activation.py', 'ReLu', 'output', 'relu_output'),
    ('sknetwork/gnn/activation.py', 'ReLu', 'gradient', 'relu_gradient'),
    ('sknetwork/gnn/activation.py', 'Sigmoid', 'output', 'sigmoid_output'),
    ('sknetwork/gnn/activation.py', 'Sigmoid', 'gradient', 'sigmoid_gradient'),
    ('sknetwork/gnn/activation.py', 'Softmax', 'output', 'softmax_output'),
    ('sknetwork/gnn/activation.py', 'Softmax', 'gradient', 'softmax_gradient'),
    ('sknetwork/gnn/loss.py', 'CrossEntropy', 'loss', 'ce_loss'),
    ('sknetwork/gnn/loss.py', 'CrossEntropy', 'loss_gradient', 'ce_loss_gradient'),
    ('sknetwork/gnn/loss.py', 'BinaryCrossEntropy', 'loss', 'bce_loss'),
    ('sknetwork/gnn/loss.py', 'BinaryCrossEntropy', 'loss_gradient', 'bce_loss_gradient'),
]
BINOPS = {ast.Add: 'BAdd', ast.Sub: 'BSub', ast.Mult: 'BMul', ast.Div: 'BDiv'}


def _z(n):
    return '(%d)%%Z' % n


class Unit:
    """All classes of the two files, so that `Sigmoid.output(signal)` can be inlined."""

    def __init__(self):
        self.classes = {}
        for rel in sorted({u[0] for u in UNITS}):
            tree = ast.parse(_src(rel))
            self._check_imports(tree, rel)
            for n in tree.body:
                if isinstance(n, ast.ClassDef):
                    self.classes[n.name] = {m.name: m for m in n.body if isinstance(m, ast.FunctionDef)}

    @staticmethod
    def _check_imports(tree, rel):
        ok_np = ok_special = False
        for n in tree.body:
            if isinstance(n, ast.Import):
                for a in n.names:
                    if a.name == 'numpy' and a.asname == 'np':
                        ok_np = True
                    elif (a.asname or a.name) in ('np', 'special'):
                        raise TranslateError('%s: np / special rebound' % rel)
            elif isinstance(n, ast.ImportFrom):
                for a in n.names:
                    local = a.asname or a.name
                    if local == 'special':
                        if n.module == 'scipy' and a.name == 'special':
                            ok_special = True
                        else:
                            raise TranslateError('%s: special is not scipy.special' % rel)
                    elif local == 'np':
                        raise TranslateError('%s: np rebound' % rel)
            elif isinstance(n, (ast.Assign, ast.AugAssign, ast.AnnAssign)):
                for t in ast.walk(n):
                    if isinstance(t, ast.Name) and t.id in ('np', 'special', 'len'):
                        raise TranslateError('%s: np / special / len rebound at module level' % rel)
        if not ok_np:
            raise TranslateError('%s: numpy is not imported as np' % rel)
        return ok_special

    def method(self, cls, name):
        if cls not in self.classes or name not in self.classes[cls]:
            raise TranslateError('%s.%s not found' % (cls, name))
        fn = self.classes[cls][name]
        a = fn.args
        if a.vararg or a.kwarg or a.posonlyargs or a.kwonlyargs or a.defaults:
            raise TranslateError('unsupported signature of %s.%s' % (cls, name))
        if not any(isinstance(d, ast.Name) and d.id == 'staticmethod' for d in fn.decorator_list) \
                or len(fn.decorator_list) != 1:
            raise TranslateError('%s.%s is not a plain static method' % (cls, name))
        return fn, [x.arg for x in a.args]


class Tr:
    def __init__(self, unit, depth=0):
        self.u = unit
        self.depth = depth
        self.lens = {}          # variable -> name of the vector whose len() it holds

    # ------------------------------------------------------------------ expressions
    def lit(self, v):
        if isinstance(v, bool) or not isinstance(v, (int, float)):
            raise TranslateError('unsupported literal %r' % (v,))
        d = Decimal(repr(v))
        if not d.is_finite():
            raise TranslateError('non-finite literal')
        sign, digits, exp = d.as_tuple()
        m = int(''.join(map(str, digits))) * (-1 if sign else 1)
        return '(ELit %s %s)' % (_z(m), _z(exp))

    def is_np(self, f, name):
        return isinstance(f, ast.Attribute) and f.attr == name and isinstance(f.value, ast.Name) and f.value.id == 'np'

    def is_special(self, f, name):
        return isinstance(f, ast.Attribute) and f.attr == name and isinstance(f.value, ast.Name) and f.value.id == 'special'

    def arange_of(self, e):
        """e is np.arange(len(L)) or np.arange(n) with n = len(L): returns the name L."""
        if not (isinstance(e, ast.Call) and self.is_np(e.func, 'arange') and len(e.args) == 1 and not e.keywords):
            raise TranslateError('unsupported row index: ' + ast.unparse(e))
        a = e.args[0]
        if isinstance(a, ast.Name) and a.id in self.lens:
            return self.lens[a.id]
        if isinstance(a, ast.Call) and isinstance(a.func, ast.Name) and a.func.id == 'len' and len(a.args) == 1 \
                and isinstance(a.args[0], ast.Name) and not a.keywords:
            return a.args[0].id
        raise TranslateError('unsupported arange argument: ' + ast.unparse(e))

    def fancy(self, sub):
        """sub is X[np.arange(len(L)), L]: returns (X expression node, L name)."""
        s = sub.slice
        if not (isinstance(s, ast.Tuple) and len(s.elts) == 2 and isinstance(s.elts[1], ast.Name)):
            raise TranslateError('unsupported subscript: ' + ast.unparse(sub))
        lab = s.elts[1].id
        if self.arange_of(s.elts[0]) != lab:
            raise TranslateError('row index and label vector differ: ' + ast.unparse(sub))
        return sub.value, lab

    def expr(self, e):
        if isinstance(e, ast.Name):
            return '(EVar %s)' % _cstr(e.id)
        if isinstance(e, ast.Constant):
            return self.lit(e.value)
        if isinstance(e, ast.BinOp) and type(e.op) in BINOPS:
            return '(EBin %s %s %s)' % (BINOPS[type(e.op)], self.expr(e.left), self.expr(e.right))
        if isinstance(e, ast.UnaryOp) and isinstance(e.op, ast.USub):
            return '(ENeg %s)' % self.expr(e.operand)
        if isinstance(e, ast.Compare) and len(e.ops) == 1 and isinstance(e.ops[0], ast.Gt):
            return '(EBin BGt %s %s)' % (self.expr(e.left), self.expr(e.comparators[0]))
        if isinstance(e, ast.Attribute) and e.attr == 'T':
            return '(ET %s)' % self.expr(e.value)
        if isinstance(e, ast.Subscript):
            x, lab = self.fancy(e)
            return '(ETake %s (EVar %s))' % (self.expr(x), _cstr(lab))
        if isinstance(e, ast.Call):
            return self.call(e)
        raise TranslateError('unsupported expression: ' + ast.unparse(e))

    def call(self, e):
        f = e.func
        kw = {k.arg: k.value for k in e.keywords}
        if None in kw:
            raise TranslateError('** in call: ' + ast.unparse(e))
        if self.is_np(f, 'maximum') and len(e.args) == 2 and not kw:
            return '(EBin BMax %s %s)' % (self.expr(e.args[0]), self.expr(e.args[1]))
        if self.is_np(f, 'log') and len(e.args) == 1 and not kw:
            return '(ELog %s)' % self.expr(e.args[0])
        if self.is_np(f, 'clip') and len(e.args) == 3 and not kw:
            return '(EClip %s %s %s)' % tuple(self.expr(a) for a in e.args)
        if self.is_special(f, 'expit') and len(e.args) == 1 and not kw:
            return '(EExpit %s)' % self.expr(e.args[0])
        if self.is_special(f, 'softmax') and len(e.args) == 1 and set(kw) == {'axis'} \
                and isinstance(kw['axis'], ast.Constant) and kw['axis'].value == 1:
            return '(ESoftmax1 %s)' % self.expr(e.args[0])
        if isinstance(f, ast.Name) and f.id == 'len' and len(e.args) == 1 and not kw:
            return '(ELen %s)' % self.expr(e.args[0])
        if isinstance(f, ast.Attribute) and f.attr == 'sum':
            if not e.args and set(kw) == {'axis'} and isinstance(kw['axis'], ast.Constant) and kw['axis'].value == 1:
                return '(ESumAxis1 %s)' % self.expr(f.value)
            if not e.args and not kw:
                v = f.value
                # f(p[l > 0]).sum() / f(p[l == 0]).sum() with f elementwise (np.log): a boolean row mask commutes with an
                # elementwise function, so this is the sum of f(p) over the selected rows
                chain, w = [], v
                while isinstance(w, ast.Call) and self.is_np(w.func, 'log') and len(w.args) == 1 and not w.keywords:
                    chain.append('ELog')
                    w = w.args[0]
                if isinstance(w, ast.Subscript) and isinstance(w.slice, ast.Compare):
                    c = w.slice
                    if not (len(c.ops) == 1 and isinstance(c.left, ast.Name) and isinstance(c.comparators[0], ast.Constant)
                            and c.comparators[0].value == 0 and not isinstance(c.comparators[0].value, bool)):
                        raise TranslateError('unsupported mask: ' + ast.unparse(w))
                    if isinstance(c.ops[0], ast.Gt):
                        pos = 'true'
                    elif isinstance(c.ops[0], ast.Eq):
                        pos = 'false'
                    else:
                        raise TranslateError('unsupported mask: ' + ast.unparse(w))
                    inner = self.expr(w.value)
                    for k in reversed(chain):
                        inner = '(%s %s)' % (k, inner)
                    return '(ESumRowsWhere %s (EVar %s) %s)' % (inner, _cstr(c.left.id), pos)
                return '(ESumAll %s)' % self.expr(v)
            raise TranslateError('unsupported sum: ' + ast.unparse(e))
        # another translated static method: Cls.method(names...)
        if isinstance(f, ast.Attribute) and isinstance(f.value, ast.Name) and f.value.id in self.u.classes and not kw:
            if self.depth > 3:
                raise TranslateError('call depth')
            fn, params = self.u.method(f.value.id, f.attr)
            if len(params) != len(e.args) or not all(isinstance(a, ast.Name) for a in e.args):
                raise TranslateError('unsupported arguments: ' + ast.unparse(e))
            args = [a.id for a in e.args]
            body = Tr(self.u, self.depth + 1).block(fn.body)
            if args == params:
                return body
            if set(args) & set(params):
                raise TranslateError('argument / parameter capture: ' + ast.unparse(e))
            for p, a in reversed(list(zip(params, args))):
                body = '(ELet %s (EVar %s) %s)' % (_cstr(p), _cstr(a), body)
            return body
        raise TranslateError('unsupported call: ' + ast.unparse(e))

    # ------------------------------------------------------------------ statements
    @staticmethod
    def _strip(stmts):
        return [s for s in stmts if not (isinstance(s, ast.Expr) and isinstance(s.value, ast.Constant)
                                         and isinstance(s.value.value, str))]

    def is_zeros_like(self, e):
        return isinstance(e, ast.Call) and self.is_np(e.func, 'zeros_like') and len(e.args) == 1 and not e.keywords

    def block(self, stmts, final=None):
        """Translate statements; the block must end in `return e` (or, when `final` is given, the value is that variable)."""
        stmts = self._strip(stmts)
        if not stmts:
            if final is None:
                raise TranslateError('block without return')
            return '(EVar %s)' % _cstr(final)
        s, rest = stmts[0], stmts[1:]
        if isinstance(s, ast.Return):
            if rest or s.value is None or final is not None:
                raise TranslateError('unsupported return')
            return self.expr(s.value)
        if isinstance(s, ast.Assign) and len(s.targets) == 1:
            t = s.targets[0]
            if isinstance(t, ast.Name):
                x = t.id
                if self.is_zeros_like(s.value):
                    # x = np.zeros_like(p); x[np.arange(len(l)), l] = 1
                    if not rest or not isinstance(rest[0], ast.Assign) or len(rest[0].targets) != 1 \
                            or not isinstance(rest[0].targets[0], ast.Subscript):
                        raise TranslateError('zeros_like without the one-hot assignment')
                    sub = rest[0].targets[0]
                    arr, lab = self.fancy(sub)
                    v = rest[0].value
                    if not (isinstance(arr, ast.Name) and arr.id == x and isinstance(v, ast.Constant)
                            and v.value == 1 and not isinstance(v.value, bool)):
                        raise TranslateError('unsupported one-hot assignment: ' + ast.unparse(rest[0]))
                    self.lens.pop(x, None)
                    return '(ELet %s (EOneHot %s (EVar %s)) %s)' % (_cstr(x), self.expr(s.value.args[0]), _cstr(lab),
                                                                      self.block(rest[1:], final))
                val = self.expr(s.value)
                v = s.value
                if isinstance(v, ast.Call) and isinstance(v.func, ast.Name) and v.func.id == 'len' and len(v.args) == 1 \
                        and isinstance(v.args[0], ast.Name):
                    self.lens[x] = v.args[0].id
                else:
                    self.lens.pop(x, None)
                    for k in [k for k, l in self.lens.items() if l == x]:
                        del self.lens[k]
                return '(ELet %s %s %s)' % (_cstr(x), val, self.block(rest, final))
            if isinstance(t, ast.Subscript) and isinstance(t.value, ast.Name):
                arr, lab = self.fancy(t)
                return '(ELet %s (ESetAt (EVar %s) (EVar %s) %s) %s)' % (_cstr(arr.id), _cstr(arr.id), _cstr(lab),
                                                                         self.expr(s.value), self.block(rest, final))
        if isinstance(s, ast.AugAssign) and isinstance(s.target, ast.Name) and type(s.op) in (ast.Sub, ast.Add):
            x = s.target.id
            self.lens.pop(x, None)
            return '(ELet %s (EBin %s (EVar %s) %s) %s)' % (_cstr(x), BINOPS[type(s.op)], _cstr(x), self.expr(s.value),
                                                           self.block(rest, final))
        if isinstance(s, ast.If):
            t = s.test
            if not (isinstance(t, ast.Compare) and len(t.ops) == 1 and isinstance(t.ops[0], ast.Eq)
                    and isinstance(t.comparators[0], ast.Constant) and t.comparators[0].value == 1
                    and isinstance(t.left, ast.Subscript) and isinstance(t.left.value, ast.Attribute)
                    and t.left.value.attr == 'shape' and isinstance(t.left.slice, ast.Constant) and t.left.slice.value == 1):
                raise TranslateError('unsupported condition: ' + ast.unparse(t))
            arr = t.left.value.value

            def assigned(b):
                out = []
                for q in self._strip(b):
                    if isinstance(q, ast.Assign) and len(q.targets) == 1:
                        tt = q.targets[0]
                        out.append(tt.id if isinstance(tt, ast.Name) else tt.value.id if isinstance(tt, ast.Subscript)
                                   and isinstance(tt.value, ast.Name) else None)
                    elif isinstance(q, ast.AugAssign) and isinstance(q.target, ast.Name):
                        out.append(q.target.id)
                    else:
                        out.append(None)
                return out
            a1, a2 = assigned(s.body), assigned(s.orelse)
            if not a1 or not a2 or None in a1 or None in a2:
                raise TranslateError('unsupported branch statements')
            common = set(a1) & set(a2)
            used_later = {n.id for q in rest for n in ast.walk(q) if isinstance(n, ast.Name)}
            live = [x for x in (set(a1) | set(a2)) if x in used_later]
            if len(live) != 1 or live[0] not in common:
                raise TranslateError('branches must define exactly one variable used afterwards: %r' % sorted(live))
            x = live[0]
            saved = dict(self.lens)
            tb = self.block(s.body, final=x)
            self.lens = dict(saved)
            eb = self.block(s.orelse, final=x)
            self.lens = saved
            self.lens.pop(x, None)
            return '(ELet %s (EIfOneCol %s %s %s) %s)' % (_cstr(x), self.expr(arr), tb, eb, self.block(rest, final))
        raise TranslateError('unsupported statement: ' + ast.unparse(s).splitlines()[0])


def gen_npgnn():
    u = Unit()
    out = ['(* generated by harness/translators/npexpr.py from sknetwork/gnn/activation.py and loss.py; do not edit *)',
           'From SKN Require Import Base.Util Model.NpExpr.',
           'From Coq Require Import String.',
           'Local Open Scope string_scope.', '']
    for rel, cls, meth, name in UNITS:
        fn, params = u.method(cls, meth)
        term = Tr(u).block(fn.body)
        out.append('(* %s: %s.%s(%s) *)' % (rel, cls, meth, ', '.join(params)))
        out.append('Definition src_%s_params : list string := [%s].' % (name, '; '.join(_cstr(p) for p in params)))
        out.append('Definition src_%s : nexpr :=\n  %s.' % (name, term))
        out.append('')
    return '\n'.join(out)


FILES = {'NpGnn.v': gen_npgnn}

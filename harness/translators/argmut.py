"""C01 (second sentence: "No call modifies anything the caller passed in") - static side.

A whole-program may-alias / may-mutate analysis of /repo's CURRENT sources, re-run on every check: for every function
of every sknetwork/**/*.py (Python `ast`) and every sknetwork/**/*.pyx (the Cython source is first rewritten line by
line into plain Python - `cdef` declarations become annotations, C-typed signatures become annotated signatures - and
then goes through the same analysis; fail closed when the rewritten text does not parse), compute which PARAMETERS
(other than `self`) may be modified in place, and emit into coq/Gen/ArgMut.v

    arg_mutations                    : list (string * string * string * string)        -- sorted
        (qualified public function, parameter, writer "file:function", path of aliases)
    arg_mutations_undocumented_types : the additional entries when arguments may have types their annotation omits
    n_functions_scanned, n_public_entry_points : nat

(the statements of each writer, with kind and current line number, are listed in a comment of the generated file: the
pinned key is the WRITER FUNCTION, not a line number, so that unrelated edits do not break the obligation).
Props/C01.v pins both lists, so a source edit that creates a new way of writing into a caller's object breaks a proof
obligation; the abstract domain (alias sets, strong updates, joins, calls analysed on the alias sets of the actuals) is
the one proved sound in coq/Proofs/ArgFrameProofs.v on the small language of coq/Model/ArgFrame.v.

ENTRY POINTS: every module-level function and every method of every class, each class with its own copy of the methods
it inherits (self.m() / super().m() are resolved for that class); public = the function and its class do not start
with '_' (dunder methods are public).  Private helpers are analysed and summarised, not listed.

ABSTRACT VALUES: for each local, the parameters ("roots") it may be related to, each with flags
  R the very object the caller passed          S a sub-object of it (p.data, an element of a list / dict)
  V a NEW object on the caller's buffers (p.T, p.reshape(..), sparse.csr_matrix(p), a row / slice of an array)
  H a NEW container / object holding references to the caller's objects ([p], (p, q), Normalizer(p))
  A the callee's own *args tuple / **kwargs dict (its elements are R)
plus, when known, the set of sknetwork classes the value may be an instance of (from constructors, annotations,
isinstance), whether it certainly is an ndarray / a SciPy sparse matrix, and per tuple position for tuple results.
Flow-sensitive inside a function (assignment to a name = strong update, branches joined, loops iterated to a fixed
point, return / raise end a path); each function is analysed once per combination of the DOCUMENTED types of its
annotated Union / Optional parameters (case split, capped), so that `isinstance(x, T)`, `type(x) == T`, `x is None`,
`hasattr(x, 'm')` on a parameter select the branch that type takes.  Inter-procedural through summaries iterated to
a global fixed point: MUT (parameters written, and whether by attribute rebinding on the object itself or deeper),
RET (what the result may alias, per tuple position), CAPT (parameters stored into self), ATTR (what self.<attr> holds).

  roots      every parameter except self, parameters annotated with immutable scalars only (int, float, bool, str,
             tuple, Callable, np.dtype, RandomState and their Optional / Union) or, when not annotated, defaulting to a
             number / string / bool; C scalars and C++ vectors (passed by value) in .pyx signatures.  Locals declared with
             a scalar type (`x: float = ..`, `cdef int x`) never alias.
  aliases    x = p; p.attr (sub-object; nothing for shape / dtype / ndim / nnz / size ...); p[..] (element of a container,
             view of an array; a COPY when p certainly is a sparse matrix, or an array indexed by an array / mask);
             np.asarray / asanyarray / ascontiguousarray / atleast_nd / ravel / reshape / squeeze / transpose ... ;
             np.array(p, copy=False); p.reshape / ravel / view / squeeze / transpose / swapaxes / T; p.astype(.., copy=False);
             p.tocsr() / tocsc() / tocoo() / tolil() / asformat() / asfptype() (SciPy returns the object itself or shares
             its buffers); sparse.csr_matrix(p) and the other sparse constructors without copy=True, also of a
             (data, indices, indptr) triple; dict.get / values / items / keys; pop / setdefault results; copy.copy;
             `a or b`, `a if c else b`; tuples / lists / dicts containing aliases (holders); iteration variables;
             enumerate / zip / reversed / iter / next / map / filter; what a called sknetwork function may return (RET);
             the object a sknetwork constructor or method stores its argument in (CAPT); UNKNOWN external methods of an
             alias are assumed to return an alias.
  no alias   .copy(), .astype(T) with the default copy=True, arithmetic / comparisons, toarray / todense / tolist / flatten
             / dot / sum ..., csr_matrix((data, (row, col))) (converted through COO), the NumPy / SciPy functions not listed
             above (they build new arrays), list / tuple / dict / set / sorted (a NEW container; that its elements are
             shared is not tracked), copy.deepcopy.
  mutation   on an alias (R, S or V): augmented assignment (also of alias.attr and alias[..]) - EXCEPT `x += S` / `x -= S`
             when x or S certainly is a SciPy sparse matrix (no in-place form exists: the name is rebound, also for an
             ndarray x); alias[..] = ..; del alias[..]; the in-place methods MUTATORS below; np.fill_diagonal / put /
             place / putmask / copyto / put_along_axis / random.shuffle on their first argument; <anything>.shuffle(alias);
             any call with out=alias; passing the alias to a parameter in MUT of a sknetwork function / method /
             constructor / Cython kernel.  On R or S only: alias.attr = .., del alias.attr, setattr(alias, ..)
             (rebinding an attribute of a NEW object on shared buffers does not touch the caller's object).
  resolution a called simple name -> the sknetwork function of that name defined in / imported into the module (all of
             that name when the import cannot be followed), or the constructor of the class; obj.m(..) -> the methods m
             of the classes obj may belong to; every sknetwork method named m when the class is unknown (joined with the
             NumPy / SciPy meaning of m when m is also one of theirs).

TRUSTED BASE (stated, not proved): functions and methods that are neither defined in sknetwork nor listed here are
PURE (no write into their arguments or receiver; `LinearOperator.dot` dispatching to a sknetwork `_matvec` included);
annotations give the documented types (an argument annotated with NumPy / SciPy / builtin types only is not a sknetwork
object; the case split covers exactly the annotated types - other types are covered by the second list); builtin
container constructors are copies; `x += S` on a LIST x with a sparse S does not occur; a sknetwork method that
mutates its RECEIVER is tracked only through ATTR / CAPT (objects stored by an earlier call), not for an object the
caller passes as a plain argument (CoNeighbor: D26 / C15); properties are plain attributes; no exec / globals / monkey
patching.  The NumPy / SciPy facts above are probed at run time by harness/workers/c01.py (probe).
Fails closed (TranslateError) on: a .pyx that does not parse after rewriting or an unreadable Cython declaration,
`match`, nested / conditional class or function definitions at module level, `global` / `nonlocal` of an alias, an
unclassifiable assignment / del / augmented-assignment target, an unsupported statement or expression form, an
unknown method of an alias whose name looks like a mutator (ends with a MUTATORS name or with '_', contains
'inplace'), a loop or the global iteration that does not stabilise."""
import ast
import glob
import os
import re

from ..translate import TranslateError, _cstr
from ..common import REPO

# ---------------------------------------------------------------------------------------------
# vocabulary
# ---------------------------------------------------------------------------------------------
MUTATORS = {'sort', 'sort_indices', 'sum_duplicates', 'eliminate_zeros', 'setdiag', 'resize', 'fill', 'put', 'itemset',
            'partition', 'setflags', 'update', 'pop', 'popitem', 'clear', 'append', 'extend', 'insert', 'remove',
            'setdefault', '__setitem__', '__delitem__', '__iadd__', '__imul__', '__isub__', '__itruediv__',
            'add', 'discard', 'reverse', 'prune', 'byteswap', 'push_back', 'pop_back', 'push', 'erase',
            'difference_update', 'intersection_update', 'symmetric_difference_update', 'appendleft', 'popleft',
            'extendleft', 'rotate', 'check_format', 'has_canonical_format', 'set_shape'}
MUTATORS -= {'check_format', 'has_canonical_format'}   # names reserved by sknetwork / read-only properties
STORING = {'append', 'extend', 'insert', 'add', 'update', 'setdefault', '__setitem__', 'push_back', 'push', 'appendleft',
           'extendleft'}
RETURNS_ELEMENT = {'pop', 'popitem', 'setdefault', 'popleft'}
ALIAS_METHODS = {'reshape', 'ravel', 'view', 'squeeze', 'transpose', 'swapaxes', 'tocsr', 'tocsc', 'tocoo', 'tolil', 'todia',
                 'tobsr', 'todok', 'asformat', 'asfptype', 'get', 'values', 'items', 'keys', 'conj', 'conjugate',
                 'newbyteorder', '__getitem__', 'getfield', 'base', 'real', 'imag', 'flat', '__iter__', '__array__'}
FRESH_METHODS = {'copy', 'toarray', 'todense', 'tolist', 'flatten', 'dot', 'sum', 'mean', 'max', 'min', 'argsort', 'cumsum',
                 'nonzero', 'multiply', 'power', 'maximum', 'minimum', 'diagonal', 'getrow', 'getcol', 'count_nonzero',
                 'argmax', 'argmin', 'any', 'all', 'std', 'var', 'round', 'repeat', 'take', 'searchsorted', 'item', 'index',
                 'count', 'format', 'lower', 'upper', 'split', 'join', 'strip', 'startswith', 'endswith', 'replace', 'prod',
                 'cumprod', 'trace', 'tobytes', 'getnnz', 'sqrt', 'log', 'exp', 'abs', 'sign', 'astype_copy', 'getH',
                 'issubset', 'union', 'intersection', 'difference', 'isdisjoint', 'encode', 'decode', 'ptp', 'clip',
                 'choice', 'rand', 'randn', 'randint', 'permutation', 'normal', 'uniform', 'random_sample', 'random',
                 'tostring', 'find', 'rfind', 'isdigit', 'title', 'rstrip', 'lstrip', 'zfill', 'readline', 'readlines', 'read',
                 'size', 'front', 'back', 'empty', 'top'}
SCALAR_ATTRS = {'shape', 'dtype', 'ndim', 'nnz', 'size', 'format', 'itemsize', 'nbytes', 'has_sorted_indices', 'name',
                '__name__', '__class__', 'has_canonical_format'}
NP_ALIAS = {'asarray', 'asanyarray', 'ascontiguousarray', 'asfortranarray', 'atleast_1d', 'atleast_2d', 'atleast_3d', 'ravel',
            'reshape', 'squeeze', 'transpose', 'swapaxes', 'expand_dims', 'broadcast_to', 'real', 'imag', 'flip', 'fliplr',
            'flipud', 'moveaxis', 'rollaxis', 'asmatrix', 'asarray_chkfinite', 'diagonal', 'nan_to_num_nocopy'}
NP_MUTATE_FIRST = {'fill_diagonal', 'put', 'place', 'putmask', 'copyto', 'put_along_axis', 'shuffle'}
SPARSE_CTORS = {'csr_matrix', 'csc_matrix', 'coo_matrix', 'lil_matrix', 'dia_matrix', 'bsr_matrix', 'dok_matrix', 'csr_array',
                'csc_array', 'coo_array', 'lil_array', 'dia_array', 'bsr_array', 'dok_array'}
ITER_BUILTINS = {'enumerate', 'zip', 'reversed', 'iter', 'next', 'map', 'filter'}
FRESH_BUILTINS = {'list', 'tuple', 'dict', 'set', 'frozenset', 'sorted', 'len', 'range', 'print', 'int', 'float', 'str', 'bool',
                  'abs', 'min', 'max', 'sum', 'any', 'all', 'round', 'type', 'hasattr', 'isinstance', 'issubclass', 'id', 'hash',
                  'repr', 'open', 'callable', 'divmod', 'pow', 'ord', 'chr', 'bytes', 'complex', 'format', 'slice', 'super',
                  'vars', 'dir', 'input', 'object', 'ValueError', 'TypeError', 'Warning', 'KeyError', 'IndexError',
                  'NotImplementedError', 'RuntimeError', 'Exception', 'deepcopy'}
IMMUTABLE_TYPES = {'int', 'float', 'bool', 'str', 'None', 'complex', 'bytes', 'type', 'Callable', 'tuple', 'Tuple', 'Optional',
                   'Union', 'typing', 'dtype', 'np', 'numpy', 'long', 'double', 'bint', 'short', 'size_t', 'int_or_long',
                   'ctuple', 'vector', 'unsigned', 'char', 'Ellipsis', 'Any_scalar', 'float32_t', 'int32_t', 'int64_t',
                   'float64_t', 'cnp', 'RandomState', 'random', 'Iterable_scalar', 'Literal'}
ANN_GLUE = {'Union', 'Optional', 'typing', 'None'}
EXTERNAL_ANN = ANN_GLUE | {'np', 'numpy', 'ndarray', 'sparse', 'csr_matrix', 'csc_matrix', 'coo_matrix', 'lil_matrix', 'spmatrix',
                           'list', 'List', 'tuple', 'Tuple', 'dict', 'Dict', 'set', 'Set', 'int', 'float', 'str', 'bool', 'complex',
                           'Iterable', 'Sequence', 'array', 'buffer', 'long', 'double', 'short', 'int_or_long', 'ndim', 'cnp',
                           'int32_t', 'int64_t', 'float32_t', 'float64_t', 'vector', 'bint', 'dtype', 'scipy', 'Ellipsis'}
EXTERNAL_TYPES = {'ndarray', 'csr_matrix', 'csc_matrix', 'coo_matrix', 'lil_matrix', 'spmatrix', 'list', 'dict', 'tuple', 'str',
                  'int', 'float', 'bool', 'set', 'matrix', 'integer', 'floating', 'number'}
SPARSE_ANN = ANN_GLUE | {'sparse', 'scipy', 'csr_matrix', 'csc_matrix', 'coo_matrix', 'lil_matrix', 'spmatrix'}
ARRAY_ANN = SPARSE_ANN | {'np', 'numpy', 'ndarray', 'array', 'buffer', 'int', 'float', 'double', 'long', 'short', 'int_or_long', 'ndim',
                          'cnp', 'int32_t', 'int64_t', 'float32_t', 'float64_t', 'matrix'}
SPARSE_MAKERS = {'diags', 'identity', 'eye', 'bmat', 'hstack', 'vstack', 'block_diag', 'kron', 'random', 'triu', 'tril', 'spdiags',
                 'diags_array', 'eye_array', 'rand'}
NP_NON_ARRAY = {'isscalar', 'issubdtype', 'dtype', 'finfo', 'iinfo', 'array_equal', 'allclose', 'isclose', 'any', 'all', 'sum', 'min',
                'max', 'mean', 'shape', 'ndim', 'size', 'errstate', 'seterr', 'save', 'load', 'savez', 'unravel_index', 'nonzero',
                'where', 'unique', 'histogram', 'meshgrid', 'linalg'}
IMMUTABLE_TAGS = {'int', 'float', 'bool', 'str', 'complex', 'bytes'}
SPARSE_TAGS = {'csr_matrix', 'csc_matrix', 'coo_matrix', 'lil_matrix', 'dia_matrix', 'bsr_matrix', 'dok_matrix'}
SELF = ('<self>', 'self')
PATH_CAP = 7


# ---------------------------------------------------------------------------------------------
# .pyx -> plain Python (line by line, line numbers preserved)
# ---------------------------------------------------------------------------------------------
_CTYPE_SCALAR = re.compile(r'^(?:unsigned\s+)?(?:int|long|float|double|bint|short|size_t|char|int_or_long|ctuple|'
                           r'(?:c?np\.)?(?:float32_t|float64_t|int32_t|int64_t))$')


def _split_top(s, sep=','):
    out, depth, cur = [], 0, ''
    for ch in s:
        if ch in '([{':
            depth += 1
        elif ch in ')]}':
            depth -= 1
        if ch == sep and depth == 0:
            out.append(cur)
            cur = ''
        else:
            cur += ch
    if cur.strip():
        out.append(cur)
    return out


def _top_colon(s):
    depth = 0
    for k, ch in enumerate(s):
        if ch in '([{':
            depth += 1
        elif ch in ')]}':
            depth -= 1
        elif ch == ':' and depth == 0:
            return k
        elif ch == '=' and depth == 0:
            return -1
    return -1


def _pyx_param(p, where):
    p = p.strip()
    if p in ('self', 'cls') or p.startswith('*'):
        return p
    if _top_colon(p) >= 0:
        return p                                     # Python annotation already
    default = ''
    head = p
    eq = [k for k, ch in enumerate(p) if ch == '=']
    if eq:
        depth = 0
        for k, ch in enumerate(p):
            if ch in '([{':
                depth += 1
            elif ch in ')]}':
                depth -= 1
            elif ch == '=' and depth == 0:
                head, default = p[:k].strip(), ' = ' + p[k + 1:].strip()
                break
    m = re.match(r'^(.*?)([A-Za-z_]\w*)$', head)
    if not m:
        raise TranslateError('cannot read Cython parameter %r (%s)' % (p, where))
    ctype, name = m.group(1).strip(), m.group(2)
    if not ctype:
        return name + default
    if _CTYPE_SCALAR.match(ctype):
        ann = 'int'
    elif ctype.startswith('vector[') or ctype.startswith('queue[') or ctype.startswith('set['):
        ann = 'vector'                                # C++ containers are converted by value
    else:
        ann = '"buffer %s"' % ctype.replace('"', "'")  # memoryview / ndarray / extension type: shares the caller's buffer
    return '%s: %s%s' % (name, ann, default)


def pyx_to_python(text, where):
    lines = text.split('\n')
    out = []
    i = 0
    skip_block_indent = None
    while i < len(lines):
        ln = lines[i]
        stripped = ln.strip()
        ind = len(ln) - len(ln.lstrip(' \t'))
        if skip_block_indent is not None:
            if stripped == '' or ind > skip_block_indent:
                out.append('')
                i += 1
                continue
            skip_block_indent = None
        if re.match(r'^(from\s+\S+\s+)?cimport\b', stripped):
            out.append('')
            i += 1
            continue
        if re.match(r'^(ctypedef\b.*|cdef\s+extern\b.*):\s*$', stripped):
            skip_block_indent = ind
            out.append('')
            i += 1
            continue
        if stripped.startswith('ctypedef '):
            out.append('')
            i += 1
            continue
        m = re.match(r'^(\s*)cdef\s+class\s+(.*)$', ln)
        if m:
            out.append('%sclass %s' % (m.group(1), m.group(2)))
            i += 1
            continue
        # function headers (possibly over several physical lines)
        if re.match(r'^\s*(def|cpdef|cdef)\b', ln) and '(' in ln and not re.match(r'^\s*cdef\s+[^=(]*=', ln):
            j = i
            joined = ln
            while joined.count('(') > joined.count(')') and j + 1 < len(lines):
                j += 1
                joined += ' ' + lines[j].strip()
            hm = re.match(r'^(\s*)(def|cpdef|cdef)\s+(.*?)([A-Za-z_]\w*)\s*\((.*)\)\s*(?:->\s*([^:]+?))?\s*(nogil)?\s*:\s*(#.*)?$', joined)
            if hm and (hm.group(2) == 'def' or joined.rstrip().split('#')[0].rstrip().endswith(':')):
                params = ', '.join(_pyx_param(p, where) for p in _split_top(hm.group(5)))
                out.append('%sdef %s(%s):' % (hm.group(1), hm.group(4), params))
                out.extend([''] * (j - i))
                i = j + 1
                continue
            if hm is None and re.match(r'^\s*(def|cpdef)\b', ln):
                raise TranslateError('cannot read the function header at %s:%d' % (where, i + 1))
        m = re.match(r'^(\s*)cdef\s+(.*)$', ln)
        if m:
            body = m.group(2).split('#')[0].rstrip()
            body = re.sub(r'^(public|readonly)\s+', '', body)
            depth = 0
            eq = -1
            for k, ch in enumerate(body):
                if ch in '([{':
                    depth += 1
                elif ch in ')]}':
                    depth -= 1
                elif ch == '=' and depth == 0 and body[k:k + 2] != '==' and (k == 0 or body[k - 1] not in '!<>='):
                    eq = k
                    break
            lhs = body if eq < 0 else body[:eq].strip()
            names = [x.strip() for x in _split_top(lhs)]
            nm = re.match(r'^(.*?)([A-Za-z_]\w*)$', names[0])
            if not nm or not nm.group(1).strip() or not all(re.match(r'^[A-Za-z_]\w*$', x) for x in names[1:]):
                raise TranslateError('cannot read the cdef declaration at %s:%d' % (where, i + 1))
            ctype = nm.group(1).strip()
            if _CTYPE_SCALAR.match(ctype):
                ann = 'int'
            elif re.match(r'^(vector|queue|set|pair|map|deque|stack)\s*\[', ctype):
                ann = 'vector'
            else:
                ann = '"buffer %s"' % ctype.replace('"', "'")
            allnames = [nm.group(2)] + names[1:]
            if eq < 0:
                out.append(m.group(1) + '; '.join('%s: %s' % (x, ann) for x in allnames))
            else:
                if len(allnames) != 1:
                    raise TranslateError('cannot read the cdef assignment at %s:%d' % (where, i + 1))
                out.append('%s%s: %s = %s' % (m.group(1), allnames[0], ann, body[eq + 1:].strip()))
            i += 1
            continue
        m = re.match(r'^(\s*)with\s+(nogil|gil)\s*:\s*(#.*)?$', ln)
        if m:
            out.append(m.group(1) + 'if True:')
            i += 1
            continue
        out.append(ln)
        i += 1
    return '\n'.join(out)


# ---------------------------------------------------------------------------------------------
# abstract values
# ---------------------------------------------------------------------------------------------
# flags of a root in an abstract value:
#   R  may be the very object the caller passed for that parameter
#   S  may be a sub-object of what the caller passed (p.data, an element of a list / dict / tuple ...)
#   V  may be a NEW object sharing buffers with the caller's (p.T, p.reshape(..), sparse.csr_matrix(p), p[a:b] of an array ...)
#   H  a NEW container / object that holds references to the caller's objects ([p], (p, q), Normalizer(p) ...)
# writes into buffers count for R, S, V; attribute rebinding (x.data = ..) counts for R and S only; H counts for
# neither, but whatever is extracted from an H value is S.
# types: None = unknown; frozenset() = certainly no sknetwork object (NumPy / SciPy / builtin, all the way down);
#        otherwise the set of concrete sknetwork classes the object may be an instance of.
# kind : 'sp' = certainly a SciPy sparse matrix, 'arr' = certainly an ndarray or a sparse matrix, None = unknown.
def _better(p, q):
    return (len(p), p) < (len(q), q)


def _merge(roots, other):
    for k, (f, p) in other.items():
        if k in roots:
            f0, p0 = roots[k]
            roots[k] = (f0 | f, p if _better(p, p0) else p0)
        else:
            roots[k] = (f, p)


def _jtypes(a, b):
    if a is None or b is None:
        return None
    return a | b


def _jkind(a, b):
    if a == b:
        return a
    if a is None or b is None:
        return None
    return 'arr'


class AV:
    __slots__ = ('roots', 'elts', 'types', 'kind', 'exact')

    def __init__(self, roots=None, elts=None, types=None, kind=None, exact=None):
        self.roots = roots or {}
        self.elts = elts
        self.types = types
        self.kind = kind
        self.exact = exact          # documented type of a parameter in the current case split ('ndarray', 'csr_matrix', 'None', a class ...)

    def flat(self):
        """Union over the tuple positions, flags preserved (unpacking / iteration / unknown index)."""
        if not self.elts:
            return self.roots
        r = dict(self.roots)
        for e in self.elts:
            _merge(r, e.flat())
        return r

    def flatav(self):
        if not self.elts:
            return self
        return AV(self.flat())

    def empty(self):
        return not self.flat()

    def info(self, types='keep', kind='keep'):
        return AV(self.roots, self.elts, self.types if types == 'keep' else types, self.kind if kind == 'keep' else kind)

    def tagged(self, exact):
        return AV(self.roots, self.elts, self.types, self.kind, exact)

    def _map(self, fn, s, kind=None):
        def ext(p):
            if s is None or s in p or len(p) >= PATH_CAP:
                return p
            return p + (s,)
        out = {}
        for k, (f, p) in self.flat().items():
            g = fn(f)
            if g:
                out[k] = (g, ext(p))
        ext_only = self.types is not None and not self.types and not self.elts
        return AV(out, None, frozenset() if ext_only else None, kind)

    def sub(self, s=None, kind=None):
        return self._map(lambda f: frozenset((['S'] if f - set('A') else []) + (['R'] if 'A' in f else [])), s, kind)

    def view(self, s=None, kind=None):
        return self._map(lambda f: frozenset((['V'] if f & set('RSV') else []) + (['H'] if f & set('HA') else [])), s, kind)

    def hold(self, s=None):
        r = self._map(lambda f: frozenset('H'), s)
        return AV(r.roots, None, frozenset())

    def step(self, s):
        def ext(p):
            if s in p or len(p) >= PATH_CAP:
                return p
            return p + (s,)
        return AV({k: (f, ext(p)) for k, (f, p) in self.roots.items()},
                  tuple(e.step(s) for e in self.elts) if self.elts else None, self.types, self.kind, self.exact)

    def key(self):
        return (tuple(sorted((k, tuple(sorted(f)), p) for k, (f, p) in self.roots.items())),
                tuple(e.key() for e in self.elts) if self.elts else None,
                None if self.types is None else tuple(sorted(self.types)), self.kind, self.exact)


EMPTY = AV()                                   # nothing known: no alias, unknown type
NOTSK = AV(types=frozenset())                  # no alias, certainly not a sknetwork object (constants, builtin results)
ARR = AV(types=frozenset(), kind='arr')        # a fresh ndarray / sparse matrix
SP = AV(types=frozenset(), kind='sp')          # a fresh sparse matrix


def join(a, b):
    if a is b:
        return a
    types = _jtypes(a.types, b.types)
    kind = _jkind(a.kind, b.kind)
    exact = a.exact if a.exact == b.exact else None
    if a.elts and b.elts and len(a.elts) == len(b.elts):
        elts = tuple(join(x, y) for x, y in zip(a.elts, b.elts))
        roots = dict(a.roots)
        _merge(roots, b.roots)
        return AV(roots, elts, types, kind, exact)
    roots = dict(a.flat())
    _merge(roots, b.flat())
    return AV(roots, None, types, kind, exact)


def join_env(e1, e2):
    if e1 is None:                      # None = unreachable (the block ended with return / raise)
        return e2
    if e2 is None:
        return e1
    out = {}
    for k in set(e1) | set(e2):
        if k in e1 and k in e2:
            out[k] = join(e1[k], e2[k])
        else:
            v = e1.get(k) or e2.get(k)
            out[k] = AV(v.roots, v.elts, None, None)      # bound on one path only: type / kind not known
    return out


def env_key(e):
    return tuple(sorted((k, v.key()) for k, v in e.items()))


# ---------------------------------------------------------------------------------------------
# program database
# ---------------------------------------------------------------------------------------------
def _ann_names(ann):
    if ann is None:
        return None
    if isinstance(ann, ast.Constant) and isinstance(ann.value, str):
        return set(re.findall(r'[A-Za-z_]\w*', ann.value))
    names = set()
    for n in ast.walk(ann):
        if isinstance(n, ast.Name):
            names.add(n.id)
        elif isinstance(n, ast.Attribute):
            names.add(n.attr)
        elif isinstance(n, ast.Constant) and isinstance(n.value, str):
            names |= set(re.findall(r'[A-Za-z_]\w*', n.value))
    return names


def _immutable_ann(ann):
    names = _ann_names(ann)
    return bool(names) and all(n in IMMUTABLE_TYPES for n in names)


def _immutable_param(ann, default):
    if ann is not None:
        return _immutable_ann(ann)
    if default is not None and isinstance(default, ast.Constant) and isinstance(default.value, (int, float, str, bool)) \
            and default.value is not None:
        return True
    if default is not None and isinstance(default, ast.UnaryOp) and isinstance(default.operand, ast.Constant):
        return True
    return False


def _ann_members(ann):
    """Members of a (Union / Optional) annotation as type tags, or None when some member cannot be named."""
    if ann is None:
        return None
    if isinstance(ann, ast.Constant):
        if ann.value is None:
            return ['None']
        if isinstance(ann.value, str):
            v = ann.value.strip()
            if v.startswith('buffer '):
                return ['buffer']
            return [v] if re.match(r'^[A-Za-z_]\w*$', v) else None
        return None
    if isinstance(ann, ast.Name):
        return [{'List': 'list', 'Dict': 'dict', 'Tuple': 'tuple', 'Set': 'set'}.get(ann.id, ann.id)]
    if isinstance(ann, ast.Attribute):
        return [ann.attr]
    if isinstance(ann, ast.Subscript):
        head = ann.value.id if isinstance(ann.value, ast.Name) else (ann.value.attr if isinstance(ann.value, ast.Attribute) else None)
        if head in ('Union', 'Optional'):
            items = ann.slice.elts if isinstance(ann.slice, ast.Tuple) else [ann.slice]
            out = ['None'] if head == 'Optional' else []
            for it in items:
                m = _ann_members(it)
                if m is None:
                    return None
                out += [x for x in m if x not in out]
            return out
        if head in ('List', 'list'):
            return ['list']
        if head in ('Dict', 'dict'):
            return ['dict']
        if head in ('Tuple', 'tuple'):
            return ['tuple']
        if head in ('Iterable', 'Sequence', 'Callable', 'Set', 'set'):
            return None
        return None
    if isinstance(ann, ast.BinOp) and isinstance(ann.op, ast.BitOr):
        a, b = _ann_members(ann.left), _ann_members(ann.right)
        return None if a is None or b is None else a + [x for x in b if x not in a]
    return None


class Func:
    """One analysed function: a module-level function, or a method body `origin.name` run on objects of class `cls`
    (every class gets its own copy of each method it defines or inherits: calls through self are resolved for that class)."""

    def __init__(self, qual, rel, node, cls, origin, modname):
        self.qual, self.rel, self.node, self.cls, self.origin, self.modname = qual, rel, node, cls, origin, modname
        a = node.args
        allpos = a.posonlyargs + a.args
        self.pos = [x.arg for x in allpos]
        self.kwonly = [x.arg for x in a.kwonlyargs]
        self.vararg = a.vararg.arg if a.vararg else None
        self.kwarg = a.kwarg.arg if a.kwarg else None
        static = any(isinstance(d, ast.Name) and d.id == 'staticmethod' for d in node.decorator_list)
        self.has_self = cls is not None and not static and bool(self.pos)
        self.selfname = self.pos[0] if self.has_self else None
        self.roots = set()
        self.ann = {}
        defaults = dict(zip([x.arg for x in allpos][len(allpos) - len(a.defaults):], a.defaults))
        defaults.update({x.arg: d for x, d in zip(a.kwonlyargs, a.kw_defaults) if d is not None})
        self.members = {}
        for x in allpos + a.kwonlyargs:
            if x.arg == self.selfname:
                continue
            self.ann[x.arg] = _ann_names(x.annotation)
            if not _immutable_param(x.annotation, defaults.get(x.arg)):
                self.roots.add(x.arg)
            mem = _ann_members(x.annotation)
            d = defaults.get(x.arg)
            if mem is not None and isinstance(d, ast.Constant) and d.value is None and 'None' not in mem:
                mem = mem + ['None']
            if mem:
                self.members[x.arg] = mem
        # case split on the documented type of each parameter (the product is capped)
        self.cases = [{}]
        for p in [q for q in self.pos + self.kwonly if q in self.members]:
            mem = self.members[p]
            if len(self.cases) * len(mem) > 48:
                continue
            self.cases = [dict(c, **{p: t}) for c in self.cases for t in mem]
        for v in (self.vararg, self.kwarg):
            if v:
                self.roots.add(v)
        self.name = node.name
        private = node.name.startswith('_') and not (node.name.startswith('__') and node.name.endswith('__'))
        self.public = not private and not (cls or '').startswith('_')
        self.entry = True                  # False for the copies only reachable through super()
        # locals declared with an immutable scalar type (x: float = .., Cython `cdef int x`): never aliases
        self.scalars = set()
        for n in ast.walk(node):
            if isinstance(n, ast.AnnAssign) and isinstance(n.target, ast.Name) and _immutable_ann(n.annotation):
                self.scalars.add(n.target.id)
        self.scalars -= set(self.pos) | set(self.kwonly)

    def formal_for(self, i):
        k = i + (1 if self.has_self else 0)
        if k < len(self.pos):
            return self.pos[k]
        return self.vararg


class Program:
    def __init__(self):
        self.funcs = {}            # qual -> Func
        self.by_name = {}          # bare name -> [Func]   (module-level functions)
        self.classes = {}          # class name -> dict(bases, defs={name: [(node, rel, modname)]}, rel, modname)
        self.module_imports = {}   # modname -> imported non-sknetwork top names (np, sparse, ...)
        self.sk_imports = {}       # modname -> {local name: {(sknetwork module or package, original name)}}
        self.table = {}            # class -> {method name: [Func]}  (own or inherited, first definer in the MRO)
        self.supers = {}           # (class, origin, method name) -> [Func]   bodies reached through super() from `origin`
        self.methods = {}          # method name -> [Func] over all classes (for receivers of unknown type)

    def add_module(self, rel, tree, modname):
        imports = set()
        for n in ast.walk(tree):
            if isinstance(n, ast.Import):
                for al in n.names:
                    imports.add((al.asname or al.name).split('.')[0])
            elif isinstance(n, ast.ImportFrom):
                if (n.module and n.module.split('.')[0] == 'sknetwork') or (n.level and n.level > 0):
                    continue
                for al in n.names:
                    imports.add(al.asname or al.name)
        self.module_imports[modname] = imports
        sk = self.sk_imports.setdefault(modname, {})
        for n in ast.walk(tree):
            if isinstance(n, ast.ImportFrom) and n.module and n.module.split('.')[0] == 'sknetwork' and not n.level:
                for al in n.names:
                    sk.setdefault(al.asname or al.name, set()).add((n.module, al.name))
        for n in tree.body:
            if isinstance(n, (ast.FunctionDef, ast.AsyncFunctionDef)):
                qual = '%s.%s' % (modname, n.name)
                k = 2
                while qual in self.funcs:
                    qual = '%s.%s#%d' % (modname, n.name, k)
                    k += 1
                f = Func(qual, rel, n, None, None, modname)
                self.funcs[qual] = f
                self.by_name.setdefault(n.name, []).append(f)
            elif isinstance(n, ast.ClassDef):
                if n.name in self.classes:
                    raise TranslateError('two classes named %s (%s, %s)' % (n.name, self.classes[n.name]['rel'], rel))
                bases = []
                for b in n.bases:
                    bases.append(b.id if isinstance(b, ast.Name) else (b.attr if isinstance(b, ast.Attribute) else None))
                info = dict(bases=[b for b in bases if b], defs={}, rel=rel, modname=modname)
                self.classes[n.name] = info
                for m in n.body:
                    if isinstance(m, (ast.FunctionDef, ast.AsyncFunctionDef)):
                        info['defs'].setdefault(m.name, []).append(m)
                    elif isinstance(m, ast.ClassDef):
                        raise TranslateError('nested class %s in %s' % (m.name, rel))
            elif isinstance(n, (ast.If, ast.Try, ast.With, ast.For, ast.While)):
                for m in ast.walk(n):
                    if isinstance(m, (ast.FunctionDef, ast.ClassDef)):
                        raise TranslateError('conditional definition of %s in %s' % (m.name, rel))

    def _mro(self, c, seen=()):
        if c in seen:
            raise TranslateError('cyclic inheritance at %s' % c)
        out = [c]
        for b in self.classes[c]['bases']:
            if b in self.classes:
                for x in self._mro(b, seen + (c,)):
                    if x in out:
                        out.remove(x)          # keep the LAST occurrence: bases come after all their subclasses
                    out.append(x)
        return out

    def finish(self):
        self.mro = {c: self._mro(c) for c in self.classes}
        self.desc = {c: sorted(k for k in self.classes if c in self.mro[k]) for c in self.classes}
        self.linop = {c for c in self.classes
                      if any('LinearOperator' in self.classes[a]['bases'] for a in self.mro[c])}
        for c in sorted(self.classes):
            info = self.classes[c]
            tab = self.table.setdefault(c, {})
            for idx, a in enumerate(self.mro[c]):
                ainfo = self.classes[a]
                for name, nodes in ainfo['defs'].items():
                    fs = []
                    for k, node in enumerate(nodes):
                        qual = '%s.%s.%s' % (info['modname'], c, name) + ('' if a == c else '<%s>' % a) + ('' if k == 0 else '#%d' % (k + 1))
                        f = Func(qual, ainfo['rel'], node, c, a, info['modname'])
                        self.funcs[qual] = f
                        fs.append(f)
                    if name not in tab:
                        tab[name] = fs
                    else:
                        for f in fs:
                            f.entry = False
                    self.supers[(c, a, name)] = fs
            for name, fs in tab.items():
                self.methods.setdefault(name, []).extend(fs)

    def functions_named(self, modname, name):
        """Module-level sknetwork functions a simple name may denote in module `modname`: the one defined there, else
        the ones imported under that name (a package import matches every module below the package), else all of that name."""
        cands = self.by_name.get(name, [])
        here = [f for f in cands if f.modname == modname]
        if here:
            return here
        out = []
        for (mod, orig) in sorted(self.sk_imports.get(modname, {}).get(name, ())):
            out += [f for f in self.by_name.get(orig, []) if f.modname == mod or f.modname.startswith(mod + '.')]
        if out:
            return out
        if name in self.sk_imports.get(modname, {}):
            return self.by_name.get(name, [])
        return cands

    def expand(self, names):
        """Concrete classes an object annotated / tested with these class names may belong to."""
        out = set()
        for n in names:
            out |= set(self.desc.get(n, []))
        return frozenset(out)

    def resolve_method(self, classes, name):
        out = []
        for c in sorted(classes):
            out += self.table.get(c, {}).get(name, [])
        return out

    def resolve_super(self, cls, origin, name):
        mro = self.mro[cls]
        for a in mro[mro.index(origin) + 1:]:
            fs = self.supers.get((cls, a, name))
            if fs:
                return fs
        return []

    def ctor(self, cls):
        tab = self.table.get(cls, {})
        return tab.get('__init__', []) + tab.get('__cinit__', [])


# ---------------------------------------------------------------------------------------------
# summaries
# ---------------------------------------------------------------------------------------------
class Summaries:
    def __init__(self):
        self.mut = {}       # root (qual, param) -> {site: (kind, path)}   kind: 'rootattr' < 'deep'
        self.ret = {}       # qual -> AV
        self.capt = {}      # qual -> {param: path}
        self.attr = {}      # (class, attr) -> AV
        self.lines = {}
        self.details = {}   # site -> {(line, kind, statement text)}   (for the comments of the generated file)
        self.changed = False
        self.unknown_methods = {}
        self.split = True   # case split on the documented (annotated) type of each parameter

    def add_mut(self, root, site, kind, path, line=None):
        d = self.mut.setdefault(root, {})
        old = d.get(site)
        if old is None:
            d[site] = (kind, path)
            self.changed = True
        else:
            k = 'deep' if 'deep' in (kind, old[0]) else 'rootattr'
            p = path if _better(path, old[1]) else old[1]
            if (k, p) != old:
                d[site] = (k, p)
                self.changed = True
        if line is not None:
            self.lines.setdefault(site, line)

    def add_ret(self, qual, av):
        old = self.ret.get(qual)
        new = av if old is None else join(old, av)
        if old is None or new.key() != old.key():
            self.ret[qual] = new
            self.changed = True

    def add_capt(self, qual, param, path):
        d = self.capt.setdefault(qual, {})
        if param not in d or _better(path, d[param]):
            d[param] = path
            self.changed = True

    def add_attr(self, key, av):
        old = self.attr.get(key)
        new = av if old is None else join(old, av)
        if old is None or new.key() != old.key():
            self.attr[key] = new
            self.changed = True


# ---------------------------------------------------------------------------------------------
# the interpreter of one function
# ---------------------------------------------------------------------------------------------
def _stmt_text(node):
    try:
        t = ast.unparse(node)
    except Exception:
        t = node.__class__.__name__
    t = ' '.join(t.split())
    return t if len(t) <= 90 else t[:87] + '...'


class Interp:
    def __init__(self, prog, summ, f):
        self.prog, self.S, self.f = prog, summ, f
        self.modimports = prog.module_imports.get(prog.classes[f.origin]['modname'] if f.origin else f.modname, set())
        self.nested = 0

    # -- helpers -----------------------------------------------------------------------------
    def site(self, node, kind):
        """Identification of a mutation site that survives unrelated edits: file and WRITING function (the statements,
        their kinds and current line numbers are kept for the comments of the generated file)."""
        owner = '%s.%s' % (self.f.origin, self.f.name) if self.f.origin else self.f.name
        sid = '%s:%s' % (self.f.rel, owner)
        self.S.details.setdefault(sid, set()).add((getattr(node, 'lineno', 0), kind, _stmt_text(node)))
        return sid

    def where(self, node):
        return '%s:%d' % (self.f.rel, getattr(node, 'lineno', 0))

    def mutate(self, av, node, kind, need='buf'):
        for root, (flags, path) in av.flat().items():
            if root == SELF:
                continue
            if need == 'attr':
                k = 'rootattr' if 'R' in flags else ('deep' if 'S' in flags else None)
            else:
                k = 'deep' if flags & set('RSV') else None
            if k:
                self.S.add_mut(root, self.site(node, kind), k, path, getattr(node, 'lineno', 0))

    def is_self(self, e):
        return isinstance(e, ast.Name) and self.f.selfname is not None and e.id == self.f.selfname

    def self_av(self):
        return AV({SELF: (frozenset('R'), ('self',))}, None, frozenset([self.f.cls]))

    def ann_info(self, names):
        """(types, kind) read from the identifiers of an annotation (trusted)."""
        if not names:
            return None, None
        sk = names & set(self.prog.classes)
        types = kind = None
        if sk and not (names - sk - ANN_GLUE - IMMUTABLE_TAGS):
            types = self.prog.expand(sk)
        elif not sk and names <= EXTERNAL_ANN:
            types = frozenset()
            if names <= SPARSE_ANN:
                kind = 'sp'
            elif names <= ARRAY_ANN:
                kind = 'arr'
        return types, kind

    def param_av(self, p, tag=None):
        f = self.f
        if tag is not None:
            if tag == 'None' or tag in IMMUTABLE_TAGS:
                return AV(types=frozenset(), exact=tag)             # None / a number / a string: nothing to alias
            names = {tag}
        else:
            names = f.ann.get(p)
        types, kind = self.ann_info(names)
        if tag in self.prog.classes:
            types = self.prog.expand([tag])
        if p in (f.vararg, f.kwarg):
            return AV({(f.qual, p): (frozenset('A'), (p,))}, None, frozenset())
        if p in f.roots:
            return AV({(f.qual, p): (frozenset('R'), (p,))}, None, types, kind, tag)
        return AV(types=types if types is not None else frozenset(), kind=kind, exact=tag)

    # -- run -----------------------------------------------------------------------------------
    def run(self):
        f = self.f
        for case in (f.cases if self.S.split else [{}]):
            env = {}
            for p in f.pos + f.kwonly + [x for x in (f.vararg, f.kwarg) if x]:
                env[p] = self.self_av() if p == f.selfname else self.param_av(p, case.get(p))
            self.block(f.node.body, env)

    def block(self, stmts, env):
        for s in stmts:
            if env is None:
                break                    # dead code after return / raise
            env = self.stmt(s, env)
        return env

    def loop(self, body, env, pre=None):
        for _ in range(12):
            e = dict(env)
            if pre:
                pre(e)
            e = self.block(body, e)
            new = join_env(env, e)
            if env_key(new) == env_key(env):
                return new
            env = new
        raise TranslateError('loop analysis did not stabilise in %s' % self.f.qual)

    def stmt(self, s, env):
        if isinstance(s, ast.Assign):
            av = self.eval(s.value, env)
            for t in s.targets:
                self.assign(t, av, env, s)
            return env
        if isinstance(s, ast.AnnAssign):
            if s.value is not None:
                self.assign(s.target, self.eval(s.value, env), env, s)
            return env
        if isinstance(s, ast.AugAssign):
            rhs = self.eval(s.value, env)
            t = s.target
            if isinstance(t, ast.Name):
                lhs = env.get(t.id, EMPTY)
                if isinstance(s.op, (ast.Add, ast.Sub)) and (rhs.kind == 'sp' or lhs.kind == 'sp'):
                    # SciPy sparse matrices have no in-place + / -: `x += S` rebinds x to a new matrix, also when x is an
                    # ndarray (the result is an np.matrix); probed at run time by harness/props/c01.py
                    env[t.id] = SP if (rhs.kind == 'sp' and lhs.kind == 'sp') else ARR
                else:
                    self.mutate(lhs, s, 'augassign')
            elif isinstance(t, ast.Subscript):
                self.eval(t.slice, env)
                self.mutate(self.eval(t.value, env), s, 'augassign-item')
            elif isinstance(t, ast.Attribute):
                self.mutate(self.eval(t, env), s, 'augassign-attr')
            else:
                raise TranslateError('unclassified augmented-assignment target at %s' % self.where(s))
            return env
        if isinstance(s, ast.Expr):
            self.eval(s.value, env)
            return env
        if isinstance(s, ast.Return):
            if s.value is not None:
                av = self.eval(s.value, env)
                if self.nested == 0:
                    self.S.add_ret(self.f.qual, av)
            elif self.nested == 0:
                self.S.add_ret(self.f.qual, NOTSK)
            return None
        if isinstance(s, ast.If):
            self.eval(s.test, env)
            d = self.decide(s.test, env)
            if d is True:
                return self.block(s.body, env)
            if d is False:
                return self.block(s.orelse, env)
            e1 = dict(env)
            self.narrow(s.test, e1)
            e1 = self.block(s.body, e1)
            e2 = self.block(s.orelse, dict(env))
            return join_env(e1, e2)
        if isinstance(s, (ast.For, ast.AsyncFor)):
            it = self.eval(s.iter, env)

            def pre(e, s=s, it=it):
                self.assign(s.target, self.element(it, 'for'), e, s)
            env = self.loop(s.body, env, pre)
            return self.block(s.orelse, env)
        if isinstance(s, ast.While):
            self.eval(s.test, env)
            env = self.loop(s.body + [ast.Expr(value=s.test)], env)
            return self.block(s.orelse, env)
        if isinstance(s, (ast.With, ast.AsyncWith)):
            for item in s.items:
                av = self.eval(item.context_expr, env)
                if item.optional_vars is not None:
                    self.assign(item.optional_vars, av, env, s)
            return self.block(s.body, env)
        if isinstance(s, ast.Try) or s.__class__.__name__ == 'TryStar':
            e0 = dict(env)
            e1 = self.block(s.body, dict(env))
            mid = join_env(e0, e1)
            outs = [self.block(s.orelse, dict(e1)) if e1 is not None else None]
            for h in s.handlers:
                eh = dict(mid)
                if h.name:
                    eh[h.name] = EMPTY
                outs.append(self.block(h.body, eh))
            res = outs[0]
            for o in outs[1:]:
                res = join_env(res, o)
            if res is None:
                self.block(s.finalbody, dict(mid))
                return None
            return self.block(s.finalbody, res)
        if isinstance(s, ast.Delete):
            for t in s.targets:
                if isinstance(t, ast.Name):
                    env.pop(t.id, None)
                elif isinstance(t, ast.Subscript):
                    self.eval(t.slice, env)
                    self.mutate(self.eval(t.value, env), s, 'delitem')
                elif isinstance(t, ast.Attribute):
                    if not self.is_self(t.value):
                        self.mutate(self.eval(t.value, env), s, 'delattr', need='attr')
                else:
                    raise TranslateError('unclassified del target at %s' % self.where(s))
            return env
        if isinstance(s, ast.Raise):
            if s.exc is not None:
                self.eval(s.exc, env)
            return None
        if isinstance(s, ast.Assert):
            self.eval(s.test, env)
            return env
        if isinstance(s, (ast.Pass, ast.Break, ast.Continue, ast.Import, ast.ImportFrom)):
            return env
        if isinstance(s, (ast.Global, ast.Nonlocal)):
            for n in s.names:
                if not env.get(n, EMPTY).empty():
                    raise TranslateError('global/nonlocal of an alias at %s' % self.where(s))
            return env
        if isinstance(s, (ast.FunctionDef, ast.AsyncFunctionDef)):
            inner = dict(env)
            a = s.args
            for x in a.posonlyargs + a.args + a.kwonlyargs + [y for y in (a.vararg, a.kwarg) if y]:
                inner[x.arg] = EMPTY
            self.nested += 1
            try:
                self.block(s.body, inner)
            finally:
                self.nested -= 1
            env[s.name] = EMPTY
            return env
        if isinstance(s, ast.ClassDef):
            raise TranslateError('class definition inside a function at %s' % self.where(s))
        raise TranslateError('unsupported statement %s at %s' % (s.__class__.__name__, self.where(s)))

    def _type_of(self, t):
        """(types, kind) of a class expression in isinstance / type(x) == ..; None when unknown."""
        if isinstance(t, (ast.Tuple, ast.List)):
            types, kind = frozenset(), 'sp'
            for x in t.elts:
                r = self._type_of(x)
                if r is None:
                    return None
                types |= r[0]
                kind = _jkind(kind, r[1])
            return types, kind
        name = t.id if isinstance(t, ast.Name) else (t.attr if isinstance(t, ast.Attribute) else None)
        if name in self.prog.classes:
            return self.prog.expand([name]), None
        if name in EXTERNAL_TYPES:
            return frozenset(), ('sp' if name in SPARSE_ANN else ('arr' if name in ARRAY_ANN else None))
        return None

    def _tag_is(self, tag, cls_expr, exact_type):
        """Does an object of documented type `tag` pass isinstance(., cls_expr) (or type(.) == cls_expr)? None = unknown."""
        if isinstance(cls_expr, (ast.Tuple, ast.List)):
            res = [self._tag_is(tag, x, exact_type) for x in cls_expr.elts]
            if any(r is True for r in res):
                return True
            return False if all(r is False for r in res) else None
        name = cls_expr.id if isinstance(cls_expr, ast.Name) else (cls_expr.attr if isinstance(cls_expr, ast.Attribute) else None)
        if name is None:
            return None
        if tag == name:
            return True
        classes = self.prog.classes
        if tag in classes:
            if name in classes:
                if name in self.prog.mro[tag]:
                    return None if exact_type else True
                return None if tag in self.prog.mro[name] else False
            if name == 'LinearOperator':
                return None if exact_type else (True if tag in self.prog.linop else False)
            return False if name in EXTERNAL_TYPES else None
        if tag == 'LinearOperator':
            return False if name in EXTERNAL_TYPES else None        # a sknetwork operator is a LinearOperator
        known = EXTERNAL_TYPES | SPARSE_TAGS | {'None', 'buffer', 'NoneType'}
        if tag in known:
            if name in classes or name == 'LinearOperator':
                return False
            if name in known:
                if not exact_type and ((tag in SPARSE_TAGS and name == 'spmatrix') or (tag == 'bool' and name == 'int')
                                       or (tag == 'matrix' and name == 'ndarray')):
                    return True
                if tag == 'buffer' or name == 'buffer':
                    return None
                return False
        return None

    def decide(self, test, env):
        """Three-valued evaluation of a type test on a parameter whose documented type is fixed in the current case."""
        if isinstance(test, ast.UnaryOp) and isinstance(test.op, ast.Not):
            d = self.decide(test.operand, env)
            return None if d is None else (not d)
        if isinstance(test, ast.BoolOp):
            ds = [self.decide(v, env) for v in test.values]
            if isinstance(test.op, ast.And):
                if any(d is False for d in ds):
                    return False
                return True if all(d is True for d in ds) else None
            if any(d is True for d in ds):
                return True
            return False if all(d is False for d in ds) else None
        if isinstance(test, ast.Call) and isinstance(test.func, ast.Name):
            if test.func.id == 'isinstance' and len(test.args) == 2 and isinstance(test.args[0], ast.Name):
                tag = env.get(test.args[0].id, EMPTY).exact
                return None if tag is None else self._tag_is(tag, test.args[1], False)
            if test.func.id == 'hasattr' and len(test.args) == 2 and isinstance(test.args[0], ast.Name) \
                    and isinstance(test.args[1], ast.Constant) and isinstance(test.args[1].value, str):
                tag = env.get(test.args[0].id, EMPTY).exact
                if tag is None:
                    return None
                if tag in self.prog.classes:
                    attr = test.args[1].value
                    return True if any(attr in self.prog.table.get(k, {}) for k in self.prog.desc[tag]) and \
                        all(attr in self.prog.table.get(k, {}) for k in self.prog.desc[tag]) else \
                        (False if not any(attr in self.prog.table.get(k, {}) for k in self.prog.desc[tag]) else None)
                if tag in EXTERNAL_TYPES | SPARSE_TAGS | {'None'}:
                    return False if test.args[1].value in self.prog.methods else None
                return None
            return None
        if isinstance(test, ast.Compare) and len(test.ops) == 1:
            op, left, right = test.ops[0], test.left, test.comparators[0]
            if isinstance(left, ast.Name) and isinstance(right, ast.Constant) and right.value is None \
                    and isinstance(op, (ast.Is, ast.IsNot, ast.Eq, ast.NotEq)):
                tag = env.get(left.id, EMPTY).exact
                if tag is None:
                    return None
                r = (tag == 'None')
                return r if isinstance(op, (ast.Is, ast.Eq)) else (not r)
            if isinstance(left, ast.Call) and isinstance(left.func, ast.Name) and left.func.id == 'type' and len(left.args) == 1 \
                    and isinstance(left.args[0], ast.Name) and isinstance(op, (ast.Eq, ast.Is, ast.NotEq, ast.IsNot, ast.In, ast.NotIn)):
                tag = env.get(left.args[0].id, EMPTY).exact
                if tag is None:
                    return None
                r = self._tag_is(tag, right, True)
                if r is None:
                    return None
                return r if isinstance(op, (ast.Eq, ast.Is, ast.In)) else (not r)
        return None

    def narrow(self, test, env):
        """`if isinstance(x, T)` / `if type(x) == T` / `if type(x) is T`: x has type T in the true branch."""
        if isinstance(test, ast.BoolOp) and isinstance(test.op, ast.And):
            for v in test.values:
                self.narrow(v, env)
            return
        var, ty = None, None
        if isinstance(test, ast.Call) and isinstance(test.func, ast.Name) and test.func.id == 'isinstance' and len(test.args) == 2 \
                and isinstance(test.args[0], ast.Name):
            var, ty = test.args[0].id, self._type_of(test.args[1])
        elif isinstance(test, ast.Compare) and len(test.ops) == 1 and isinstance(test.ops[0], (ast.Eq, ast.Is)) \
                and isinstance(test.left, ast.Call) and isinstance(test.left.func, ast.Name) and test.left.func.id == 'type' \
                and len(test.left.args) == 1 and isinstance(test.left.args[0], ast.Name):
            var, ty = test.left.args[0].id, self._type_of(test.comparators[0])
        if var is not None and ty is not None and var in env:
            v = env[var]
            if ty[0] or not v.elts:
                env[var] = AV(v.roots, v.elts, ty[0], ty[1])

    # -- assignment ----------------------------------------------------------------------------
    def weak_store(self, obj, av, env):
        """`obj` (a container / object expression) now also holds what `av` aliases."""
        if av.empty():
            return
        held = av.hold()
        if isinstance(obj, ast.Name):
            if self.is_self(obj) or obj.id in self.f.scalars:
                return
            old = env.get(obj.id, EMPTY)
            roots = dict(old.flat())
            _merge(roots, held.roots)
            env[obj.id] = AV(roots, None, old.types, old.kind)
        elif isinstance(obj, ast.Attribute) and self.is_self(obj.value) and self.f.cls:
            self.S.add_attr((self.f.cls, obj.attr), AV(held.roots))
            self.capture(held)
        elif isinstance(obj, (ast.Attribute, ast.Subscript)):
            self.weak_store(obj.value, av, env)

    def capture(self, av):
        if self.f.cls is None:
            return
        for root, (flags, path) in av.flat().items():
            if root != SELF and root[0] == self.f.qual:
                self.S.add_capt(self.f.qual, root[1], path)

    def element(self, av, s):
        """What iteration / unpacking / indexing with an unknown index yields."""
        if av.elts:
            return av.flatav()
        if av.kind in ('arr', 'sp'):
            return av.view(s, kind='arr')           # rows / slices of an array are new objects on the same buffer
        return av.sub(s)

    def assign(self, t, av, env, node):
        if isinstance(t, ast.Name):
            env[t.id] = NOTSK if t.id in self.f.scalars else av.step(t.id)
        elif isinstance(t, (ast.Tuple, ast.List)):
            if av.elts and len(av.elts) == len(t.elts) and not av.roots and not any(isinstance(e, ast.Starred) for e in t.elts):
                for e, a in zip(t.elts, av.elts):
                    self.assign(e, a, env, node)
            else:
                el = self.element(av, None)
                for e in t.elts:
                    self.assign(e, el, env, node)
        elif isinstance(t, ast.Starred):
            self.assign(t.value, self.element(av, None).hold(), env, node)
        elif isinstance(t, ast.Subscript):
            self.eval(t.slice, env)
            self.mutate(self.eval(t.value, env), node, 'setitem')
            self.weak_store(t.value, av, env)
        elif isinstance(t, ast.Attribute):
            if self.is_self(t.value) and self.f.cls:
                self.S.add_attr((self.f.cls, t.attr), av.step('self.' + t.attr))
                self.capture(av)
            else:
                self.mutate(self.eval(t.value, env), node, 'setattr', need='attr')
                self.weak_store(t.value, av, env)
        else:
            raise TranslateError('unclassified assignment target at %s' % self.where(node))

    # -- expressions -----------------------------------------------------------------------------
    def eval(self, e, env):
        if e is None:
            return EMPTY
        if isinstance(e, ast.Name):
            return env.get(e.id, EMPTY)
        if isinstance(e, ast.Constant):
            return NOTSK
        if isinstance(e, ast.Attribute):
            if self.is_self(e.value) and self.f.cls:
                return self.S.attr.get((self.f.cls, e.attr), EMPTY)
            base = self.eval(e.value, env)
            if e.attr in SCALAR_ATTRS:
                return NOTSK
            if e.attr == 'T':
                return base.view('.T', kind=base.kind).info(types=base.types)
            if e.attr in ('data', 'indices', 'indptr', 'row', 'col') and base.kind == 'sp':
                return base.sub('.' + e.attr, kind='arr')
            return base.sub('.' + e.attr)
        if isinstance(e, ast.Subscript):
            base = self.eval(e.value, env)
            idx = self.eval(e.slice, env) if not isinstance(e.slice, ast.Tuple) else None
            if base.elts and isinstance(e.slice, ast.Constant) and isinstance(e.slice.value, int) \
                    and -len(base.elts) <= e.slice.value < len(base.elts) and not base.roots:
                return base.elts[e.slice.value]
            if base.kind == 'sp':
                return SP                               # indexing a SciPy sparse matrix always builds a new matrix
            if base.kind == 'arr':
                parts = e.slice.elts if isinstance(e.slice, ast.Tuple) else [e.slice]
                if any(self.eval(x, env).kind == 'arr' for x in parts if not isinstance(x, ast.Slice)):
                    return ARR                          # advanced (array / mask) indexing copies
            return self.element(base, '[..]')
        if isinstance(e, ast.Call):
            return self.call(e, env)
        if isinstance(e, ast.BinOp):
            a, b = self.eval(e.left, env), self.eval(e.right, env)
            if a.kind == 'sp' and b.kind == 'sp' and isinstance(e.op, (ast.Add, ast.Sub, ast.Mult, ast.MatMult)):
                return SP
            if a.kind or b.kind:
                return ARR
            return EMPTY
        if isinstance(e, ast.UnaryOp):
            a = self.eval(e.operand, env)
            return AV(types=a.types if a.types == frozenset() else None, kind=a.kind)
        if isinstance(e, ast.Compare):
            a = self.eval(e.left, env)
            ks = [a.kind]
            for c in e.comparators:
                ks.append(self.eval(c, env).kind)
            return ARR if any(ks) else NOTSK
        if isinstance(e, ast.BoolOp):
            out = None
            for v in e.values:
                a = self.eval(v, env)
                out = a if out is None else join(out, a)
            return out
        if isinstance(e, ast.IfExp):
            self.eval(e.test, env)
            return join(self.eval(e.body, env), self.eval(e.orelse, env))
        if isinstance(e, ast.Tuple):
            elts = tuple(self.eval(x, env) for x in e.elts)
            if any(isinstance(x, ast.Starred) for x in e.elts):
                out = NOTSK
                for a in elts:
                    out = join(out, a.hold())
                return out
            if all(a.empty() for a in elts):
                return NOTSK
            return AV({}, elts, frozenset())
        if isinstance(e, (ast.List, ast.Set)):
            out = NOTSK
            for x in e.elts:
                out = join(out, self.eval(x, env).hold())
            return out
        if isinstance(e, ast.Dict):
            out = NOTSK
            for x in list(e.keys) + list(e.values):
                if x is not None:
                    out = join(out, self.eval(x, env).hold())
            return out
        if isinstance(e, ast.Starred):
            return self.element(self.eval(e.value, env), None)
        if isinstance(e, (ast.ListComp, ast.SetComp, ast.GeneratorExp, ast.DictComp)):
            inner = dict(env)
            for g in e.generators:
                it = self.eval(g.iter, inner)
                self.assign(g.target, self.element(it, 'for'), inner, e)
                for c in g.ifs:
                    self.eval(c, inner)
            if isinstance(e, ast.DictComp):
                return join(NOTSK, join(self.eval(e.key, inner).hold(), self.eval(e.value, inner).hold()))
            return join(NOTSK, self.eval(e.elt, inner).hold())
        if isinstance(e, ast.Lambda):
            inner = dict(env)
            a = e.args
            for x in a.posonlyargs + a.args + a.kwonlyargs + [y for y in (a.vararg, a.kwarg) if y]:
                inner[x.arg] = EMPTY
            self.nested += 1
            try:
                self.eval(e.body, inner)
            finally:
                self.nested -= 1
            return EMPTY
        if isinstance(e, ast.JoinedStr):
            for v in e.values:
                self.eval(v, env)
            return NOTSK
        if isinstance(e, ast.FormattedValue):
            self.eval(e.value, env)
            return NOTSK
        if isinstance(e, ast.Slice):
            for x in (e.lower, e.upper, e.step):
                self.eval(x, env)
            return NOTSK
        if isinstance(e, ast.NamedExpr):
            av = self.eval(e.value, env)
            self.assign(e.target, av, env, e)
            return av
        if isinstance(e, (ast.Yield, ast.YieldFrom, ast.Await)):
            av = self.eval(e.value, env) if e.value is not None else EMPTY
            if self.nested == 0:
                self.S.add_ret(self.f.qual, av.hold())
            return EMPTY
        raise TranslateError('unsupported expression %s at %s' % (e.__class__.__name__, self.where(e)))

    # -- calls -----------------------------------------------------------------------------------
    def call(self, c, env):
        args = []
        for a in c.args:
            if isinstance(a, ast.Starred):
                args.append(('*', self.element(self.eval(a.value, env), None)))
            else:
                args.append((None, self.eval(a, env)))
        kws = []
        for k in c.keywords:
            av = self.eval(k.value, env)
            kws.append((k.arg, av if k.arg is not None else self.element(av, None)))
        for name, av in kws:
            if name == 'out':                                   # out=alias is a write whatever the function is
                self.mutate(av, c, 'out=')
        fn = c.func
        if isinstance(fn, ast.Name):
            return self.call_name(c, fn.id, args, kws, env)
        if isinstance(fn, ast.Attribute):
            return self.call_attr(c, fn, args, kws, env)
        return self.call_object(c, self.eval(fn, env), args, kws, env, None)

    def call_object(self, c, av, args, kws, env, recv):
        """Calling a value: the __call__ of the sknetwork classes it may belong to (every sknetwork __call__ when its
        class is unknown); a plain function value is unknown and assumed pure."""
        if av.types is None:
            cands = self.prog.methods.get('__call__', [])
        else:
            cands = self.prog.resolve_method(av.types, '__call__')
        out = None
        for g in cands:
            r = self.apply(c, g, args, kws, av.flatav(), env, recv=recv)
            out = r if out is None else join(out, r)
        return out if out is not None else EMPTY

    def _all_args(self, args, kws):
        roots = {}
        for _, a in list(args) + list(kws):
            _merge(roots, a.flat())
        return AV(roots, None, frozenset())

    def call_name(self, c, name, args, kws, env):
        if name in env and name not in self.prog.by_name and name not in self.prog.classes:
            return self.call_object(c, env[name], args, kws, env, None)   # a local callable (object with __call__, or unknown)
        here = self.prog.classes[self.f.origin]['modname'] if self.f.origin else self.f.modname
        cands = list(self.prog.functions_named(here, name))
        ctor = name in self.prog.classes
        if cands or ctor:
            out = None
            for g in cands:
                r = self.apply(c, g, args, kws, None, env)
                out = r if out is None else join(out, r)
            if ctor:
                captured = {}
                for g in self.prog.ctor(name):
                    _merge(captured, self.apply(c, g, args, kws, None, env, ctor=True).flat())
                r = AV(captured, None, frozenset([name]), None)
                out = r if out is None else join(out, r)
            return out
        if name in ITER_BUILTINS:
            return self._all_args(args, kws).hold(name + '()')
        if name == 'getattr':
            return args[0][1].sub('getattr') if args else EMPTY
        if name == 'setattr':
            if args:
                self.mutate(args[0][1], c, 'setattr()', need='attr')
            return NOTSK
        if name == 'copy':
            return args[0][1].flatav().step('copy.copy') if args else EMPTY
        if name in SPARSE_CTORS:
            return self.sparse_ctor(c, args, kws)
        if name in FRESH_BUILTINS:
            return NOTSK
        return EMPTY                                           # external names: fresh, pure

    def sparse_ctor(self, c, args, kws):
        cp = self._kwnode(c, 'copy')
        if cp is not None and isinstance(cp, ast.Constant) and cp.value is True:
            return SP
        name = c.func.id if isinstance(c.func, ast.Name) else c.func.attr
        if c.args and isinstance(c.args[0], ast.Tuple) and len(c.args[0].elts) == 2 and isinstance(c.args[0].elts[1], ast.Tuple) \
                and name.startswith(('csr_', 'csc_')):
            return SP                                   # (data, (row, col)): converted through COO, the buffers are new
        out = self._all_args(args[:1], []).view(ast.unparse(c.func) + '()')
        return AV(out.roots, None, frozenset(), 'sp')

    @staticmethod
    def _kwnode(c, name):
        for k in c.keywords:
            if k.arg == name:
                return k.value
        return None

    @staticmethod
    def chain_root(e):
        while isinstance(e, ast.Attribute):
            e = e.value
        return e.id if isinstance(e, ast.Name) else None

    def call_attr(self, c, fn, args, kws, env):
        m = fn.attr
        recv = fn.value
        root = self.chain_root(recv)
        # ---- module functions: np.xxx, sparse.xxx, np.random.xxx, copy.copy ...
        if root is not None and root in self.modimports and root not in env:
            dotted = ast.unparse(fn)
            if m in NP_MUTATE_FIRST and args:
                self.mutate(args[0][1], c, 'call %s()' % dotted)
                return NOTSK
            if m in SPARSE_CTORS:
                return self.sparse_ctor(c, args, kws)
            if m in SPARSE_MAKERS and root in ('sparse', 'sp', 'scipy') and 'linalg' not in dotted and 'csgraph' not in dotted:
                return SP
            if m in NP_ALIAS and args:
                a = args[0][1].flatav().step(dotted + '()')
                return AV(a.roots, None, frozenset(), 'arr')
            if m == 'array' and args:
                cp = self._kwnode(c, 'copy')
                if cp is not None and isinstance(cp, ast.Constant) and cp.value is False:
                    return AV(args[0][1].flatav().step('np.array(copy=False)').roots, None, frozenset(), 'arr')
                return ARR
            if m == 'copy' and root == 'copy' and args:
                return args[0][1].flatav().step('copy.copy')
            if m in self.prog.by_name or m in self.prog.classes:      # module-qualified sknetwork function
                return self.call_name(c, m, args, kws, env)
            if root in ('np', 'numpy') and 'random' not in dotted and m not in NP_NON_ARRAY:
                return ARR
            return NOTSK
        # ---- self.m(...) / super().m(...)
        is_super = isinstance(recv, ast.Call) and isinstance(recv.func, ast.Name) and recv.func.id == 'super'
        if (self.is_self(recv) or is_super) and self.f.cls:
            if is_super:
                cands = self.prog.resolve_super(self.f.cls, self.f.origin, m)
            else:
                cands = self.prog.resolve_method([self.f.cls], m)
            out = None
            for g in cands:
                r = self.apply(c, g, args, kws, self.self_av(), env, via_self=True)
                out = r if out is None else join(out, r)
            if not cands and self.is_self(recv):
                stored = self.S.attr.get((self.f.cls, m))
                if stored is not None and stored.types:
                    return self.call_object(c, stored, args, kws, env, None)
            return out if out is not None else EMPTY
        # ---- a method of some object
        rav = self.eval(recv, env)
        known_external = m in MUTATORS or m in ALIAS_METHODS or m in FRESH_METHODS or m in ('astype', 'shuffle')
        if rav.types is None:
            cands = self.prog.methods.get(m, [])
            external = known_external or not cands      # a name only sknetwork defines is a sknetwork method
        elif rav.types:
            cands = self.prog.resolve_method(rav.types, m)
            external = not cands
        else:
            cands, external = [], True
        if not cands and not known_external and m in self.prog.methods:
            cands, external = self.prog.methods[m], False      # a name only sknetwork defines: the annotation was too narrow
        out = None
        if cands:
            for g in cands:
                r = self.apply(c, g, args, kws, rav.flatav(), env, recv=recv)
                out = r if out is None else join(out, r)
        if external:
            r = self.external_method(c, m, recv, rav, args, kws, env)
            out = r if out is None else join(out, r)
        return out

    def external_method(self, c, m, recv, rav, args, kws, env):
        ext = rav.types if rav.types == frozenset() else None
        if m == 'shuffle' and args:
            self.mutate(args[0][1], c, 'call .shuffle()')
            return NOTSK
        if m in MUTATORS:
            self.mutate(rav, c, 'method .%s()' % m)
            if m in STORING:
                self.weak_store(recv, self._all_args(args, kws), env)
            if m in RETURNS_ELEMENT:
                return join(rav.sub('.%s()' % m), self._all_args(args[1:], []).info(types=None))
            return NOTSK
        if m == 'astype':
            cp = self._kwnode(c, 'copy')
            if cp is not None and not (isinstance(cp, ast.Constant) and cp.value is True):
                return rav.flatav().step('.astype(copy=False)')
            return AV(types=ext, kind=rav.kind)
        if m in ALIAS_METHODS:
            cp = self._kwnode(c, 'copy')
            if cp is not None and isinstance(cp, ast.Constant) and cp.value is True:
                return AV(types=ext, kind=rav.kind)
            if m in ('get', 'values', 'items', 'keys', '__getitem__', '__iter__'):
                return join(rav.sub('.%s()' % m), self._all_args(args[1:], kws).info(types=None))
            if m in ('reshape', 'ravel', 'view', 'squeeze', 'transpose', 'swapaxes', 'conj', 'conjugate', 'real', 'imag'):
                return rav.view('.%s()' % m, kind=rav.kind).info(types=ext)   # a new object on (possibly) the same buffer
            if m in ('tocsr', 'tocsc', 'tocoo', 'tolil', 'todia', 'tobsr', 'todok', 'asformat', 'asfptype'):
                return rav.flatav().step('.%s()' % m).info(types=frozenset(), kind='sp')   # may return the object itself
            return rav.flatav().step('.%s()' % m)
        if m in FRESH_METHODS:
            if m == 'copy':
                return AV(types=ext, kind=rav.kind)
            if m in ('toarray', 'todense', 'flatten', 'dot', 'multiply', 'power', 'maximum', 'minimum', 'sum', 'mean', 'cumsum',
                     'argsort', 'diagonal', 'repeat', 'take', 'clip', 'round', 'getrow', 'getcol') and rav.kind:
                return ARR
            return AV(types=ext)
        if not rav.empty():
            low = m.lower()
            if (low.endswith('_') and not low.endswith('__')) or 'inplace' in low or \
                    any(low.endswith(x) for x in MUTATORS if len(x) > 3):
                raise TranslateError('unknown method .%s() on an alias of a parameter at %s looks like a mutator' % (m, self.where(c)))
            self.S.unknown_methods[m] = self.S.unknown_methods.get(m, 0) + 1
            return rav.flatav().step('.%s()' % m).info(kind=None)
        return AV(types=ext)

    def apply(self, c, g, args, kws, recv_av, env, ctor=False, recv=None, via_self=False):
        """Apply the summaries of candidate callee g at call c. recv_av: AV bound to g's self (None for plain functions)."""
        bind = {}

        def add(formal, av):
            if formal is None:
                return
            bind[formal] = join(bind[formal], av) if formal in bind else av
        npos = 0
        first = 1 if g.has_self else 0
        for star, av in args:
            if star:
                for k in range(npos, len(g.pos) - first):
                    add(g.formal_for(k), av)
                add(g.vararg, av)
            else:
                add(g.formal_for(npos), av)
                npos += 1
        for name, av in kws:
            if name is None:
                for p in g.pos[first:] + g.kwonly:
                    add(p, av)
                add(g.kwarg, av)
            elif name in g.pos or name in g.kwonly:
                add(name, av)
            elif g.kwarg:
                add(g.kwarg, av)
        short = g.cls if ctor else g.name
        # mutation of actuals
        for formal, av in bind.items():
            sites = self.S.mut.get((g.qual, formal))
            if not sites or av.empty():
                continue
            for root, (flags, path) in av.flat().items():
                if root == SELF:
                    continue
                for site, (kind, cpath) in sites.items():
                    if kind == 'deep':
                        k = 'deep'
                    elif 'R' in flags:
                        k = 'rootattr'
                    elif 'S' in flags:
                        k = 'deep'
                    else:
                        continue
                    self.S.add_mut(root, site, k, _cat(path, ('%s(%s)' % (short, formal),) + cpath[1:]))
        # captured into the receiver / the new object
        captured = {}
        for formal in self.S.capt.get(g.qual, {}):
            if formal in bind and not bind[formal].empty():
                _merge(captured, bind[formal].hold(short + '().self').roots)
        captured = AV(captured)
        if ctor:
            return captured
        if not captured.empty():
            if via_self:
                self.capture(captured)          # self.m(x) stores x: the current method's parameter is captured too
            elif recv is not None:
                self.weak_store(recv, captured, env)
        r = self.S.ret.get(g.qual)
        if r is None:
            return EMPTY
        self_av = None
        if recv_av is not None:
            roots = dict(recv_av.flat())
            _merge(roots, captured.roots)
            self_av = AV(roots, None, recv_av.types, recv_av.kind)
        return _subst(r, g, bind, self_av, short + '()')


def _cat(p, q):
    out = p
    for s in q:
        if len(out) >= PATH_CAP + 5:
            break
        out = out + (s,)
    return out


def _compose(actual_flags, g):
    """Flags of the result when the callee returns its parameter with flag g and the actual has actual_flags."""
    if g == 'R':
        return set(actual_flags)
    if g == 'S':
        return {'S'}
    if g == 'V':
        return ({'V'} if actual_flags & set('RSV') else set()) | ({'H'} if 'H' in actual_flags else set())
    return {'H'}


def _subst(r, g, bind, self_av, label):
    def sub_roots(roots):
        out = {}
        for root, (gflags, path) in roots.items():
            if root == SELF:
                actual = self_av
            elif root[0] == g.qual:
                actual = bind.get(root[1])
            else:
                _merge(out, {root: (gflags, path)})
                continue
            if actual is None:
                continue
            for aroot, (aflags, apath) in actual.flat().items():
                fl = set()
                for gf in gflags:
                    fl |= _compose(aflags, gf)
                if fl:
                    p = apath if (label in apath or len(apath) >= PATH_CAP) else apath + (label,)
                    _merge(out, {aroot: (frozenset(fl), p)})
        return out
    types, kind = r.types, r.kind
    if len(r.roots) == 1 and not r.elts:
        (root, (gflags, _)), = r.roots.items()
        if gflags == frozenset('R'):                    # the callee returns exactly this argument: type and kind carry over
            actual = self_av if root == SELF else (bind.get(root[1]) if root[0] == g.qual else None)
            if actual is not None:
                types = actual.types if types is None else types
                kind = actual.kind if kind is None else kind
    if r.elts:
        base = sub_roots(r.roots)
        elts = tuple(_subst(e, g, bind, self_av, label) for e in r.elts)
        if not base:
            return AV({}, elts, types, kind)
        out = dict(base)
        for e in elts:
            _merge(out, e.flat())
        return AV(out, None, types, kind)
    return AV(sub_roots(r.roots), None, types, kind)


# ---------------------------------------------------------------------------------------------
# driver
# ---------------------------------------------------------------------------------------------
def _skip(rel):
    return '/tests/' in rel or rel.endswith('/test_base.py') or rel.endswith('data/load.py') or rel.endswith('data/timeout.py')


def load_program():
    prog = Program()
    files = sorted(glob.glob(os.path.join(REPO, 'sknetwork', '**', '*.py'), recursive=True)) + \
        sorted(glob.glob(os.path.join(REPO, 'sknetwork', '**', '*.pyx'), recursive=True))
    if len(files) < 50:
        raise TranslateError('only %d source files found under %s/sknetwork' % (len(files), REPO))
    for p in files:
        rel = os.path.relpath(p, REPO)
        if _skip(rel):
            continue
        text = open(p).read()
        if p.endswith('.pyx'):
            text = pyx_to_python(text, rel)
        try:
            tree = ast.parse(text)
        except SyntaxError as e:
            raise TranslateError('%s does not parse%s: %s' % (rel, ' after the Cython rewrite' if p.endswith('.pyx') else '', e))
        modname = rel[:-3].replace('/', '.') if rel.endswith('.py') else rel[:-4].replace('/', '.')
        if modname.endswith('.__init__'):
            modname = modname[:-9]
        prog.add_module(rel, tree, modname)
    prog.finish()
    return prog


def analyse(split=True, prog=None):
    prog = prog or load_program()
    S = Summaries()
    S.split = split
    order = sorted(prog.funcs)
    for it in range(80):
        S.changed = False
        S.unknown_methods = {}
        for q in order:
            Interp(prog, S, prog.funcs[q]).run()
        if not S.changed:
            break
    else:
        raise TranslateError('summaries did not reach a fixed point')
    return prog, S


def entries(prog, S):
    out = []
    for (qual, param), sites in S.mut.items():
        f = prog.funcs.get(qual)
        if f is None or not f.public or not f.entry:
            continue
        name = qual.replace('sknetwork.', '', 1)
        for site, (kind, path) in sites.items():
            out.append((name, param, site, ' -> '.join(path)))
    return sorted(set(out))


def gen_argmut():
    prog, S = analyse()
    ents = entries(prog, S)
    # the same analysis WITHOUT the case split on documented types: what may additionally be written when an argument
    # has a type its annotation does not list (outside the property's quantifier; pinned separately)
    _, S2 = analyse(split=False, prog=prog)
    known = {e[:3] for e in ents}
    ents2 = [e for e in entries(prog, S2) if e[:3] not in known]
    for sid, d in S2.details.items():
        S.details.setdefault(sid, set()).update(d)
    n_pub = len([f for f in prog.funcs.values() if f.public and f.entry])
    out = ['(* generated by harness/translators/argmut.py from every sknetwork/**/*.py and *.pyx of the working tree:',
           '   parameters (other than self) that may be modified in place: (function, parameter, writer, alias path).',
           '   Analysis rules and trusted base: see the header of the translator.  The writer "file:function" names the',
           '   function whose body contains the writes (stable when unrelated lines move); the statements themselves, with',
           '   their kind and current line, are listed in the comment block below.  A method inherited by a class is listed',
           '   under that class as Class.method<DefiningClass>.',
           '   arg_mutations: every argument of a documented (annotated) type.  arg_mutations_undocumented_types: the',
           '   additional entries when arguments may have any type (type tests on parameters not decided). *)',
           'From Coq Require Import String List.', 'Import ListNotations.', 'Open Scope string_scope.',
           'Definition n_functions_scanned : nat := %d.' % len(prog.funcs),
           'Definition n_public_entry_points : nat := %d.' % n_pub]
    body = ''
    for k, e in enumerate(ents):
        body += '\n  (%s, %s, %s, %s)%s' % (tuple(_cstr(x) for x in e) + (';' if k + 1 < len(ents) else '',))
    out.append('Definition arg_mutations : list (string * string * string * string) := [%s].' % body)
    body = ''
    for k, e in enumerate(ents2):
        body += '\n  (%s, %s, %s, %s)%s' % (tuple(_cstr(x) for x in e) + (';' if k + 1 < len(ents2) else '',))
    out.append('Definition arg_mutations_undocumented_types : list (string * string * string * string) := [%s].' % body)
    out.append('(* writes, per writer ("file:line kind: statement"; all writes of the function on any alias of a parameter):')
    for sid in sorted({e[2] for e in ents + ents2}):
        out.append('   %s' % sid)
        for (line, kind, text) in sorted(S.details.get(sid, ())):
            out.append('      %s:%d %s: %s' % (sid.split(':')[0], line, kind, text.replace('*)', '* )').replace('(*', '( *')))
    out.append('*)')
    return '\n'.join(out) + '\n'


def gen_argmut_closed():
    try:
        return gen_argmut()
    except TranslateError:
        raise
    except Exception as e:           # any internal failure of the analysis fails closed (and only for the checks that need ArgMut.v)
        raise TranslateError('argmut analysis failed: %s: %s' % (type(e).__name__, e))


FILES = {'ArgMut.v': gen_argmut_closed}

if __name__ == '__main__':
    import sys
    prog, S = analyse()
    for e in entries(prog, S):
        print(e + (sorted(S.details.get(e[2], ())),))
    print(len(prog.funcs), len([f for f in prog.funcs.values() if f.public and f.entry]), file=sys.stderr)
    print('unknown methods on aliases:', sorted(S.unknown_methods.items()), file=sys.stderr)
    if os.environ.get('ARGMUT_DEBUG'):
        for q, av in sorted(S.ret.items()):
            if not av.empty():
                print('RET', q, {k: (''.join(sorted(f)), p) for k, (f, p) in av.flat().items()}, av.kind, file=sys.stderr)
        for q, d in sorted(S.capt.items()):
            print('CAPT', q, sorted(d), file=sys.stderr)
        for k, av in sorted(S.attr.items()):
            if not av.empty():
                print('ATTR', k, {r: ''.join(sorted(f)) for r, (f, p) in av.flat().items()}, file=sys.stderr)

"""Name sanitisers of the SVG label sites (C20) -> coq/Gen/Sanitise.v.

For each site (graphs.py:svg_text, dendrograms.py:svg_dendrogram_top, svg_dendrogram_left) the
ordered list of (character, replacement string) applied to a name before it is put between
`>` and `</text>` is re-extracted from the source on every run. Recognised forms, in any mix:

    text = str(<expr>)                                   # start (list reset)
    text = str(<expr>).replace('a', 'x').replace(...)    # direct chain
    text = text.replace('a', 'x')...                     # continuation
    for c in ['a', 'b', ...]:                            # loop over a literal list/tuple
        text = text.replace(c, 'x')

Fail-closed on everything else: another assignment to the variable, a non-literal argument, an
`old` that is not one ASCII character, a sanitising statement that does not dominate the use, a
`<text` format string whose content slot is not the last `{}` placed between `>` and `</text>`,
or a content argument that is not the sanitised variable.
"""
import ast

from ..translate import TranslateError, _src, _func

SITES = [
    ('svg_text_repl', 'sknetwork/visualization/graphs.py', 'svg_text'),
    ('dendrogram_top_repl', 'sknetwork/visualization/dendrograms.py', 'svg_dendrogram_top'),
    ('dendrogram_left_repl', 'sknetwork/visualization/dendrograms.py', 'svg_dendrogram_left'),
]

COMPOUND = (ast.For, ast.While, ast.If, ast.With, ast.Try)


def _const_str(node, what):
    if isinstance(node, ast.Constant) and isinstance(node.value, str):
        return node.value
    raise TranslateError('%s is not a string literal: %s' % (what, ast.unparse(node)))


def _check_old(old):
    if len(old) != 1 or ord(old) >= 128:
        raise TranslateError('replaced pattern %r is not a single ASCII character' % old)
    return old


def _chain(expr, var, loopvar=None, loopvals=None):
    """expr = base(.replace(a, b))*  ->  (resets, [(old, new), ...]); base is `var` or str(<e>)."""
    reps = []
    while isinstance(expr, ast.Call) and isinstance(expr.func, ast.Attribute) and expr.func.attr == 'replace':
        if expr.keywords or len(expr.args) != 2:
            raise TranslateError('unsupported replace call: ' + ast.unparse(expr))
        a, b = expr.args
        new = _const_str(b, 'replacement')
        if loopvar is not None and isinstance(a, ast.Name) and a.id == loopvar:
            step = [(_check_old(o), new) for o in loopvals]
        else:
            step = [(_check_old(_const_str(a, 'replaced pattern')), new)]
        reps.append(step)
        expr = expr.func.value
    reps = [p for step in reversed(reps) for p in step]
    if isinstance(expr, ast.Name) and expr.id == var:
        return False, reps
    if isinstance(expr, ast.Call) and isinstance(expr.func, ast.Name) and expr.func.id == 'str' \
            and len(expr.args) == 1 and not expr.keywords:
        if loopvar is not None:
            raise TranslateError('str(...) restart inside the replacement loop')
        return True, reps
    raise TranslateError('unsupported expression assigned to %s: %s' % (var, ast.unparse(expr)))


def _parents(fn):
    par = {}
    for n in ast.walk(fn):
        for ch in ast.iter_child_nodes(n):
            par[ch] = n
    return par


def _ancestors(node, par, fn):
    """Enclosing compound statements, outermost first, each with the arm (field) it is entered through."""
    out = []
    child = node
    n = par.get(node)
    while n is not None and n is not fn:
        if isinstance(n, COMPOUND):
            arm = None
            for field, value in ast.iter_fields(n):
                if value is child or (isinstance(value, list) and any(v is child for v in value)):
                    arm = field
            if arm is None:
                raise TranslateError('cannot locate a statement inside its parent')
            if arm not in ('body', 'iter', 'test', 'items'):
                arm = arm + '@%d' % id(child)   # else / except / finally arms are never shared
            out.append((n, arm))
        elif not isinstance(n, (ast.stmt, ast.expr, ast.keyword)):
            raise TranslateError('unexpected syntax around line %d' % getattr(node, 'lineno', 0))
        child = n
        n = par.get(n)
    return list(reversed(out))


def _site(path, fname, var='text'):
    fn = _func(ast.parse(_src(path)), fname)
    par = _parents(fn)
    # --- uses: .format calls on a literal that contains a <text element
    uses = []
    for n in ast.walk(fn):
        if isinstance(n, ast.Call) and isinstance(n.func, ast.Attribute) and n.func.attr == 'format' \
                and isinstance(n.func.value, ast.Constant) and isinstance(n.func.value.value, str) \
                and '<text' in n.func.value.value:
            fmt = n.func.value.value
            if fmt.count('<text') != 1 or fmt.count('</text>') != 1 or not fmt.endswith('>{}</text>'):
                raise TranslateError('unexpected <text> template in %s: %r' % (fname, fmt))
            if n.keywords or any(isinstance(a, ast.Starred) for a in n.args):
                raise TranslateError('unsupported format call in %s' % fname)
            if '{' in fmt.replace('{}', '') or '}' in fmt.replace('{}', '') or fmt.count('{}') != len(n.args):
                raise TranslateError('format slots do not match the arguments in %s' % fname)
            last = n.args[-1]
            if not (isinstance(last, ast.Name) and last.id == var):
                raise TranslateError('content of <text> in %s is %s, not the sanitised variable' % (fname, ast.unparse(last)))
            if any(isinstance(a, ast.Name) and a.id == var for a in n.args[:-1]):
                raise TranslateError('sanitised variable also used in an attribute in %s' % fname)
            uses.append(n)
    if not uses:
        raise TranslateError('no <text> template found in %s' % fname)
    # any other string literal producing a <text element would be an unrecognised site
    for n in ast.walk(fn):
        if isinstance(n, ast.Constant) and isinstance(n.value, str) and '<text' in n.value:
            p = par.get(n)
            if not (isinstance(p, ast.Attribute) and p.attr == 'format' and par.get(p) in uses):
                if not (isinstance(p, ast.Expr)):   # docstring
                    raise TranslateError('unrecognised use of a <text> literal in %s' % fname)
    # --- definitions of the variable
    assigns = []
    for n in ast.walk(fn):
        targets = []
        if isinstance(n, ast.Assign):
            targets = n.targets
        elif isinstance(n, (ast.AugAssign, ast.AnnAssign)):
            targets = [n.target]
        elif isinstance(n, (ast.For, ast.comprehension)):
            targets = [n.target]
        elif isinstance(n, ast.NamedExpr):
            targets = [n.target]
        for t in targets:
            for m in ast.walk(t):
                if isinstance(m, ast.Name) and m.id == var:
                    if not (isinstance(n, ast.Assign) and len(n.targets) == 1 and isinstance(n.targets[0], ast.Name)):
                        raise TranslateError('unsupported binding of %s in %s: %s' % (var, fname, ast.unparse(n)))
                    assigns.append(n)
    if not assigns:
        raise TranslateError('variable %s is never assigned in %s' % (var, fname))
    assigns.sort(key=lambda n: (n.lineno, n.col_offset))
    first_use = min((u.lineno, u.col_offset) for u in uses)
    reps = []
    started = False
    for k, a in enumerate(assigns):
        if (a.lineno, a.col_offset) >= first_use:
            raise TranslateError('%s is re-assigned after its use in %s' % (var, fname))
        anc = _ancestors(a, par, fn)
        loopvar = loopvals = None
        if anc and isinstance(anc[-1][0], ast.For) and anc[-1][1] == 'body':
            loop = anc[-1][0]
            if isinstance(loop.target, ast.Name) and isinstance(loop.iter, (ast.List, ast.Tuple)) \
                    and loop.body == [a] and not loop.orelse:
                loopvar = loop.target.id
                loopvals = [_const_str(e, 'loop element') for e in loop.iter.elts]
                anc = anc[:-1]
        # the statement must be executed whenever the use is: its enclosing compound statements
        # (with the arm taken) must also enclose every use
        for u in uses:
            uanc = _ancestors(u, par, fn)
            if uanc[:len(anc)] != anc:
                raise TranslateError('sanitising statement at line %d does not dominate the <text> template in %s' % (a.lineno, fname))
        resets, step = _chain(a.value, var, loopvar, loopvals)
        if resets:
            if started and reps:
                raise TranslateError('%s restarted from str(...) after replacements in %s' % (var, fname))
            started = True
            reps = list(step)
        else:
            if not started and var not in [x.arg for x in fn.args.args]:
                raise TranslateError('%s used before str(...) in %s' % (var, fname))
            reps.extend(step)
    return reps


def _char(c):
    return '(ascii_of_nat %d (* %s *))' % (ord(c), c if c.isprintable() and c not in '*()"' else '.')


def _str(s):
    for ch in s:
        if ord(ch) >= 128 or (ord(ch) < 32):
            raise TranslateError('replacement string %r is not printable ASCII' % s)
    return '"' + s.replace('"', '""') + '"'


def gen_sanitise():
    lines = ['(* generated from sknetwork/visualization/graphs.py and dendrograms.py: for each label site,',
             '   the ordered (character, replacement) pairs applied to a name before it becomes the content',
             '   of a <text> element *)',
             'From Coq Require Import String Ascii List.', 'Import ListNotations.', 'Open Scope string_scope.']
    for name, path, fname in SITES:
        reps = _site(path, fname)
        lines.append('Definition %s : list (ascii * string) := [%s].' %
                     (name, '; '.join('(%s, %s)' % (_char(c), _str(r)) for c, r in reps)))
    return '\n'.join(lines) + '\n'


FILES = {'Sanitise.v': gen_sanitise}

"""sknetwork/classification/metrics.py -> terms of the array language of coq/Model/NpVec.v (C13, metrics).

Translated statement by statement from the Python ast (fail-closed on anything else): get_accuracy_score,
get_confusion_matrix, get_f1_scores (three terms: f1_scores, precisions, recalls) and the three branches of
get_average_f1_score.  Calls of one of these functions from another are inlined.  get_f1_score (the binary front end) is
pinned textually: it only checks that the labels are {0, 1} and returns entry 1 of the vectors of get_f1_scores."""
import ast

from ..translate import TranslateError, _src, _cstr
from .npvec import Tr

REL = 'sknetwork/classification/metrics.py'
IMPORTS = {'check_vector_format': 'sknetwork.utils.check'}

F1_BINARY = (
    "values = set(labels_true[labels_true >= 0]) | set(labels_pred[labels_pred >= 0])",
    "if values != {0, 1}:\n    raise ValueError('Labels must be binary. Check get_f1_scores or get_average_f1_score for "
    "multi-label classification.')",
    "if return_precision_recall:\n    f1_scores, precisions, recalls = get_f1_scores(labels_true, labels_pred, True)\n"
    "    return (f1_scores[1], precisions[1], recalls[1])\nelse:\n    f1_scores = get_f1_scores(labels_true, labels_pred, False)\n"
    "    return f1_scores[1]",
)


class TrM(Tr):
    """Tr + the constructs of classification/metrics.py"""

    def __init__(self, tree):
        super().__init__(tree, IMPORTS)
        self.inline_depth = 0

    def _is_zero(self, c):
        return isinstance(c, ast.Constant) and c.value == 0 and not isinstance(c.value, bool)

    def _inline(self, e):
        """call of a function of this module with positional Name / Constant-bool arguments -> its body as a term"""
        fn = self.funcs[e.func.id]
        if self.inline_depth > 3:
            raise TranslateError('recursive inlining of ' + fn.name)
        if fn.args.vararg or fn.args.kwarg or fn.args.kwonlyargs or e.keywords:
            raise TranslateError('unsupported call: ' + ast.unparse(e))
        params = [a.arg for a in fn.args.args]
        ndef = len(fn.args.defaults)
        args = list(e.args)
        if len(args) > len(params) or len(args) < len(params) - ndef:
            raise TranslateError('arity of ' + ast.unparse(e))
        defaults = dict(zip(params[len(params) - ndef:], fn.args.defaults))
        binds, flags = [], {}
        for i, p in enumerate(params):
            a = args[i] if i < len(args) else defaults[p]
            if isinstance(a, ast.Constant) and isinstance(a.value, bool):
                flags[p] = a.value
            elif isinstance(a, ast.Name):
                if a.id != p:
                    raise TranslateError('argument renaming is not supported: ' + ast.unparse(e))
            else:
                raise TranslateError('unsupported argument: ' + ast.unparse(e))
        self.inline_depth += 1
        try:
            return function_term(self, fn, flags, None)
        finally:
            self.inline_depth -= 1

    def unmask(self, e, mask):
        """elementwise expression over x[mask] operands -> the same expression over x (to be used under XMaskSet ... mask)"""
        if isinstance(e, ast.Subscript) and isinstance(e.value, ast.Name) and isinstance(e.slice, ast.Name):
            if e.slice.id != mask:
                raise TranslateError('operand masked by another mask: ' + ast.unparse(e))
            return self.expr(e.value)
        if isinstance(e, ast.Constant):
            return self.expr(e)
        if isinstance(e, ast.BinOp):
            from .npexpr import BINOPS
            if type(e.op) in BINOPS:
                return '(XBin %s %s %s)' % (BINOPS[type(e.op)], self.unmask(e.left, mask), self.unmask(e.right, mask))
        raise TranslateError('unsupported masked right-hand side: ' + ast.unparse(e))

    def expr(self, e):
        if isinstance(e, ast.Compare) and len(e.ops) == 1 and isinstance(e.ops[0], ast.Gt) and self._is_zero(e.comparators[0]):
            return '(XGt0 %s)' % self.expr(e.left)
        if isinstance(e, ast.BinOp) and isinstance(e.op, ast.BitAnd):
            return '(XAnd %s %s)' % (self.expr(e.left), self.expr(e.right))
        if isinstance(e, ast.Subscript) and isinstance(e.value, ast.Name) and e.value.id.startswith('labels'):
            # labels[mask] / labels[labels >= 0]
            return '(XMaskLab %s %s)' % (self.expr(e.value), self.expr(e.slice))
        if isinstance(e, ast.Subscript) and isinstance(e.value, ast.Name) and isinstance(e.slice, ast.Name) \
                and e.slice.id == 'labels_unique':
            return '(XGather %s %s)' % (self.expr(e.value), self.expr(e.slice))
        if isinstance(e, ast.Call):
            f = e.func
            if isinstance(f, ast.Name) and f.id in self.funcs:
                return self._inline(e)
            if self.is_call(e, 'np', 'zeros', 1):
                return '(XZeros %s)' % self.expr(e.args[0])
            if self.is_call(e, 'np', 'sum', 1):
                return '(XSum %s)' % self.expr(e.args[0])
            if self.is_call(e, 'np', 'mean', 1):
                a = e.args[0]
                if isinstance(a, ast.Compare) and len(a.ops) == 1 and isinstance(a.ops[0], ast.Eq):
                    return '(XLabEqMean %s %s)' % (self.expr(a.left), self.expr(a.comparators[0]))
                return '(XMean %s)' % self.expr(a)
            if isinstance(f, ast.Attribute) and f.attr == 'ones' and isinstance(f.value, ast.Name) and f.value.id == 'np' \
                    and len(e.args) == 1 and len(e.keywords) == 1 and e.keywords[0].arg == 'dtype' \
                    and isinstance(e.keywords[0].value, ast.Name) and e.keywords[0].value.id == 'int':
                return '(XOnes %s)' % self.expr(e.args[0])
            if isinstance(f, ast.Attribute) and f.attr == 'csr_matrix' and isinstance(f.value, ast.Name) and f.value.id == 'sparse' \
                    and len(e.args) == 1 and len(e.keywords) == 1 and e.keywords[0].arg == 'shape':
                a, sh = e.args[0], e.keywords[0].value
                if isinstance(a, ast.Tuple) and len(a.elts) == 2 and isinstance(a.elts[1], ast.Tuple) and len(a.elts[1].elts) == 2 \
                        and isinstance(sh, ast.Tuple) and len(sh.elts) == 2 and ast.unparse(sh.elts[0]) == ast.unparse(sh.elts[1]):
                    return '(XCoo %s %s %s %s)' % (self.expr(a.elts[0]), self.expr(a.elts[1].elts[0]), self.expr(a.elts[1].elts[1]),
                                                   self.expr(sh.elts[0]))
                raise TranslateError('unsupported csr_matrix construction: ' + ast.unparse(e))
        return super().expr(e)

    def simple(self, s, cont):
        # x[mask] = <elementwise expression over y[mask]>
        if isinstance(s, ast.Assign) and len(s.targets) == 1:
            t = s.targets[0]
            if isinstance(t, ast.Subscript) and isinstance(t.value, ast.Name) and isinstance(t.slice, ast.Name):
                x, m = t.value.id, t.slice.id
                return '(XLet %s (XMaskSet (XVar %s) (XVar %s) %s) %s)' % (_cstr(x), _cstr(x), _cstr(m), self.unmask(s.value, m), cont())
            # labels_unique, counts = np.unique(<labels>, return_counts=True)
            if isinstance(t, ast.Tuple) and len(t.elts) == 2 and all(isinstance(q, ast.Name) for q in t.elts):
                v = s.value
                if isinstance(v, ast.Call) and isinstance(v.func, ast.Attribute) and v.func.attr == 'unique' \
                        and isinstance(v.func.value, ast.Name) and v.func.value.id == 'np' and len(v.args) == 1 \
                        and len(v.keywords) == 1 and v.keywords[0].arg == 'return_counts' \
                        and isinstance(v.keywords[0].value, ast.Constant) and v.keywords[0].value.value is True:
                    arg = self.expr(v.args[0])
                    return '(XLet %s (XUnique %s) (XLet %s (XUniqueCounts %s) %s))' % (
                        _cstr(t.elts[0].id), arg, _cstr(t.elts[1].id), arg, cont())
        return super().simple(s, cont)


def _is_raise_value_error(stmts):
    return len(stmts) == 1 and isinstance(stmts[0], ast.Raise) and isinstance(stmts[0].exc, ast.Call) \
        and isinstance(stmts[0].exc.func, ast.Name) and stmts[0].exc.func.id == 'ValueError'


def body_term(tr, stmts, flags, want):
    """statements of a function body -> term.  flags: values of boolean parameters (branches on them are resolved);
    want: index of the returned tuple component (None: the function returns one value)."""
    stmts = tr.strip(stmts)
    if not stmts:
        raise TranslateError('function body without return')
    s, rest = stmts[0], stmts[1:]
    if isinstance(s, ast.Expr) and isinstance(s.value, ast.Call) and isinstance(s.value.func, ast.Name) \
            and s.value.func.id == 'check_vector_format':
        # check_vector_format(labels_true, labels_pred): 1-D arrays of equal length, else ValueError.  The term keeps the
        # length condition (the conjunction of the two masks is undefined on different lengths)
        if [ast.unparse(a) for a in s.value.args] != ['labels_true', 'labels_pred'] or s.value.keywords:
            raise TranslateError('unexpected check_vector_format call')
        return body_term(tr, rest, flags, want)
    if isinstance(s, ast.Return):
        if rest:
            raise TranslateError('statements after return')
        v = s.value
        if isinstance(v, ast.Tuple):
            if want is None:
                raise TranslateError('tuple returned where one value is expected')
            return tr.expr(v.elts[want])
        if want not in (None, 0):
            raise TranslateError('single value returned where a tuple component is expected')
        return tr.expr(v)
    if isinstance(s, ast.If):
        t = s.test
        # if <boolean parameter>: A else: B
        if isinstance(t, ast.Name) and t.id in flags:
            return body_term(tr, (s.body if flags[t.id] else s.orelse) + rest, flags, want)
        # if np.sum(mask): A else: raise ValueError
        if tr.is_call(t, 'np', 'sum', 1) and _is_raise_value_error(tr.strip(s.orelse)) and not rest:
            return '(XIfCount %s %s)' % (tr.expr(t), body_term(tr, s.body, flags, want))
        raise TranslateError('unsupported if: ' + ast.unparse(t))
    return tr.simple(s, lambda: body_term(tr, rest, flags, want))


def function_term(tr, fn, flags, want):
    for p in flags:
        if p not in [a.arg for a in fn.args.args]:
            raise TranslateError('%s has no parameter %s' % (fn.name, p))
    return body_term(tr, fn.body, flags, want)


def gen_npclsmetrics():
    tree = ast.parse(_src(REL))
    tr0 = TrM(tree)
    for name in ('get_accuracy_score', 'get_confusion_matrix', 'get_f1_score', 'get_f1_scores', 'get_average_f1_score'):
        if name not in tr0.funcs:
            raise TranslateError(name + ' not found')
    sig = {'get_accuracy_score': ['labels_true', 'labels_pred'], 'get_confusion_matrix': ['labels_true', 'labels_pred'],
           'get_f1_score': ['labels_true', 'labels_pred', 'return_precision_recall'],
           'get_f1_scores': ['labels_true', 'labels_pred', 'return_precision_recall'],
           'get_average_f1_score': ['labels_true', 'labels_pred', 'average']}
    for name, params in sig.items():
        fn = tr0.funcs[name]
        if [a.arg for a in fn.args.args] != params or fn.args.vararg or fn.args.kwarg or fn.args.kwonlyargs:
            raise TranslateError('unexpected signature of ' + name)
    got = tuple(ast.unparse(x) for x in Tr.strip(tr0.funcs['get_f1_score'].body))
    if got != F1_BINARY:
        raise TranslateError('get_f1_score changed: %r' % (got,))
    out = ['(* generated by harness/translators/npclsmetrics.py from %s; do not edit *)' % REL,
           'From SKN Require Import Base.Util Model.NpExpr Model.NpVec.',
           'From Coq Require Import String.',
           'Local Open Scope string_scope.', '']

    def emit(name, term, what):
        out.append('(* %s: %s (inputs: labels_true, labels_pred) *)' % (REL, what))
        out.append('Definition %s : vexpr :=\n  %s.' % (name, term))
        out.append('')
    emit('src_cls_accuracy', function_term(TrM(tree), tr0.funcs['get_accuracy_score'], {}, None), 'get_accuracy_score')
    emit('src_cls_confusion', function_term(TrM(tree), tr0.funcs['get_confusion_matrix'], {}, None), 'get_confusion_matrix')
    for k, comp in enumerate(('f1', 'precisions', 'recalls')):
        emit('src_cls_' + comp, function_term(TrM(tree), tr0.funcs['get_f1_scores'], {'return_precision_recall': True}, k),
             'get_f1_scores(..., True)[%d]' % k)
    emit('src_cls_f1_only', function_term(TrM(tree), tr0.funcs['get_f1_scores'], {'return_precision_recall': False}, None),
         'get_f1_scores(..., False)')
    # get_average_f1_score: if average == 'micro': return A  else: <stmt>; if average == 'macro': return B elif average == 'weighted': C else raise
    fn = tr0.funcs['get_average_f1_score']
    body = Tr.strip(fn.body)

    def is_avg(t, value):
        return isinstance(t, ast.Compare) and len(t.ops) == 1 and isinstance(t.ops[0], ast.Eq) and ast.unparse(t.left) == 'average' \
            and isinstance(t.comparators[0], ast.Constant) and t.comparators[0].value == value
    if len(body) != 1 or not isinstance(body[0], ast.If) or not is_avg(body[0].test, 'micro'):
        raise TranslateError('unexpected shape of get_average_f1_score')
    micro = body[0].body
    other = Tr.strip(body[0].orelse)
    if len(other) != 2 or not isinstance(other[1], ast.If) or not is_avg(other[1].test, 'macro') \
            or len(other[1].orelse) != 1 or not isinstance(other[1].orelse[0], ast.If) or not is_avg(other[1].orelse[0].test, 'weighted') \
            or not _is_raise_value_error(Tr.strip(other[1].orelse[0].orelse)):
        raise TranslateError('unexpected shape of get_average_f1_score (macro / weighted)')
    emit('src_cls_micro', body_term(TrM(tree), micro, {}, None), "get_average_f1_score(average='micro')")
    emit('src_cls_macro', body_term(TrM(tree), [other[0]] + other[1].body, {}, None), "get_average_f1_score(average='macro')")
    emit('src_cls_weighted', body_term(TrM(tree), [other[0]] + other[1].orelse[0].body, {}, None),
         "get_average_f1_score(average='weighted')")
    return '\n'.join(out)


FILES = {'NpClsMetrics.v': gen_npclsmetrics}

"""Facts of sknetwork/topology/cycles.py the C12 model depends on (fail-closed).

Gen/CyclesCode.v:
  bc_und_visits_other_components : does the undirected branch of break_cycles start a traversal in the
      connected components that contain no root (repair of defect D22), or only from the given roots?
  bc_und_start_iter : source text of the iterable of that branch's `for start_node in ...` loop.
  acyclic_count_expr / acyclic_edges_expr : the undirected criterion of is_acyclic, as written.
"""
import ast

from ..translate import TranslateError, _src, _func, _calls, _cstr, _bool

REL = 'sknetwork/topology/cycles.py'


def _directed_if(fn):
    """The top-level `if directed: ... else: ...` statement of break_cycles."""
    found = [n for n in fn.body if isinstance(n, ast.If) and isinstance(n.test, ast.Name) and n.test.id == 'directed'
             and n.orelse]
    if len(found) != 1:
        raise TranslateError('expected exactly one top-level `if directed: ... else: ...` in break_cycles')
    return found[0]


def gen_cycles_code():
    tree = ast.parse(_src(REL))
    bc = _func(tree, 'break_cycles')
    node = _directed_if(bc)
    loops = [n for n in node.orelse if isinstance(n, ast.For)]
    if len(loops) != 1 or not isinstance(loops[0].target, ast.Name) or loops[0].target.id != 'start_node':
        raise TranslateError('undirected branch of break_cycles: expected exactly one `for start_node in ...` loop')
    it = loops[0].iter
    wrapper = ast.Module(body=list(node.orelse), type_ignores=[])
    cc_calls = _calls(wrapper, 'connected_components')
    if isinstance(it, ast.Name) and it.id == 'root' and not cc_calls:
        visits = False
    elif (isinstance(it, ast.BinOp) and isinstance(it.op, ast.Add) and ast.unparse(it.left) == 'list(root)'
          and isinstance(it.right, ast.Name) and len(cc_calls) == 1):
        # the repaired form: `for start_node in list(root) + others`, `others` = first node of every component
        # (increasing label) whose label is not in set(cc_labels[root])
        src = ast.unparse(wrapper)
        need = ['set(cc_labels[root])', 'np.unique(cc_labels)', 'np.flatnonzero(cc_labels == label)[0]',
                'if label not in rooted']
        if not all(s in src for s in need):
            raise TranslateError('undirected branch of break_cycles: unrecognised construction of the extra start nodes')
        visits = True
    else:
        raise TranslateError('undirected branch of break_cycles: unrecognised start-node iterable: ' + ast.unparse(it))
    # is_acyclic: the undirected criterion
    ia = _func(tree, 'is_acyclic')
    rets = [ast.unparse(n.value) for n in ast.walk(ia) if isinstance(n, ast.Return) and n.value is not None]
    assigns = {ast.unparse(n.targets[0]): ast.unparse(n.value) for n in ast.walk(ia)
               if isinstance(n, ast.Assign) and len(n.targets) == 1}
    if 'n_cc == n_nodes - n_edges' not in rets or 'n_cc == n_nodes' not in rets:
        raise TranslateError('is_acyclic: unexpected return expressions %r' % rets)
    if assigns.get('n_edges') != 'adjacency.nnz // 2' or assigns.get('n_nodes') != 'adjacency.shape[0]':
        raise TranslateError('is_acyclic: unexpected n_edges / n_nodes')
    lines = ['(* generated from %s *)' % REL,
             'From Coq Require Import String Bool.', 'Open Scope string_scope.',
             'Definition bc_und_visits_other_components : bool := %s.' % _bool(visits),
             'Definition bc_und_start_iter : string := %s.' % _cstr(ast.unparse(it)),
             'Definition acyclic_count_expr : string := "n_cc == n_nodes - n_edges".',
             'Definition acyclic_edges_expr : string := %s.' % _cstr(assigns['n_edges'])]
    return '\n'.join(lines) + '\n'


FILES = {'CyclesCode.v': gen_cycles_code}

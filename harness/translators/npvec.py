"""sknetwork/regression/diffusion.py -> terms of the array language of coq/Model/NpVec.v (C14).

Translated, statement by statement from the Python ast (fail-closed on anything else): init_temperatures, and the numeric
core of Diffusion.fit and of Dirichlet.fit — everything between the call of get_adjacency_values (whose results `adjacency`
and `values` are the inputs of the term) and the assignment of `self.values_` (whose right-hand side is its value).  The call
of init_temperatures is inlined."""
import ast

from ..translate import TranslateError, _src, _cstr
from .npexpr import BINOPS, _z

REL = 'sknetwork/regression/diffusion.py'


def _lit(v):
    from decimal import Decimal
    if isinstance(v, bool) or not isinstance(v, (int, float)):
        raise TranslateError('unsupported literal %r' % (v,))
    d = Decimal(repr(v))
    if not d.is_finite():
        raise TranslateError('non-finite literal')
    sign, digits, exp = d.as_tuple()
    return '(XLit %s %s)' % (_z(int(''.join(map(str, digits))) * (-1 if sign else 1)), _z(exp))


DIFFUSION_IMPORTS = {'normalize': 'sknetwork.linalg.normalizer', 'get_degrees': 'sknetwork.utils',
                     'get_adjacency_values': 'sknetwork.utils'}
METRICS_IMPORTS = {'get_probs': 'sknetwork.utils.check', 'get_adjacency': 'sknetwork.utils.format',
                   'get_membership': 'sknetwork.utils.membership'}


class Tr:
    def __init__(self, tree, want=None):
        self.tree = tree
        self.funcs = {n.name: n for n in tree.body if isinstance(n, ast.FunctionDef)}
        self.degree_vars = set()
        self.ndim = None            # 1 / 2: which branch of `X.ndim == 2` is translated (Normalizer)
        self.self_attrs = ()        # extra self.<attr> names readable as variables
        self.shape_of_self = None   # variable whose shape is self.shape
        self.want = dict(DIFFUSION_IMPORTS if want is None else want)
        self._check_imports()

    def _check_imports(self):
        want = self.want
        seen = {}
        for n in self.tree.body:
            if isinstance(n, ast.Import):
                for a in n.names:
                    if (a.asname or a.name) == 'np' and a.name != 'numpy':
                        raise TranslateError('np is not numpy')
            elif isinstance(n, ast.ImportFrom):
                for a in n.names:
                    local = a.asname or a.name
                    if local in want:
                        if n.module != want[local] or a.name != local:
                            raise TranslateError('%s is not %s.%s' % (local, want[local], local))
                        seen[local] = True
                    if local == 'sparse' and not (n.module == 'scipy' and a.name == 'sparse'):
                        raise TranslateError('sparse is not scipy.sparse')
            elif isinstance(n, (ast.Assign, ast.AugAssign)):
                raise TranslateError('module-level assignment')
        for k in want:
            if k not in seen:
                raise TranslateError('%s is not imported as expected' % k)
        for name in want:
            if name in self.funcs:
                raise TranslateError('%s is redefined locally' % name)
        for name in ('normalize', 'get_degrees', 'get_probs', 'get_membership'):
            if name not in want and (name in self.funcs or any(
                    isinstance(n, ast.ImportFrom) and any((a.asname or a.name) == name for a in n.names) for n in self.tree.body)):
                pass    # not used by this unit: calls of it are rejected below (the name is not in self.want)

    # ---------------------------------------------------------------- expressions
    def name_of(self, e):
        if isinstance(e, ast.Name):
            return e.id
        if isinstance(e, ast.Attribute) and isinstance(e.value, ast.Name) and e.value.id == 'self' \
                and (e.attr in ('n_iter', 'damping_factor', 'labels_', 'labels_row_', 'labels_col_', 'a', 'b', 'restart')
                     or e.attr in self.self_attrs):
            return 'self.' + e.attr
        return None

    def is_call(self, e, owner, attr, nargs):
        return isinstance(e, ast.Call) and isinstance(e.func, ast.Attribute) and e.func.attr == attr \
            and isinstance(e.func.value, ast.Name) and e.func.value.id == owner and len(e.args) == nargs and not e.keywords

    def method(self, e, attr, nargs=0):
        """e is X.attr(args) without keywords: returns X and the args"""
        if isinstance(e, ast.Call) and isinstance(e.func, ast.Attribute) and e.func.attr == attr and len(e.args) == nargs \
                and not e.keywords:
            return e.func.value, e.args
        return None

    def expr(self, e):
        nm = self.name_of(e)
        if nm is not None:
            if nm in self.degree_vars:
                raise TranslateError('the degree vector %s is used outside `== 0` / len()' % nm)
            return '(XVar %s)' % _cstr(nm)
        if isinstance(e, ast.Constant):
            return _lit(e.value)
        if isinstance(e, ast.BinOp) and isinstance(e.op, ast.Add) and isinstance(e.right, ast.Constant) and e.right.value == 1 \
                and not isinstance(e.right.value, bool) and isinstance(e.left, ast.Call) and isinstance(e.left.func, ast.Name) \
                and e.left.func.id == 'max' and not e.left.keywords:
            a = e.left.args
            if len(a) == 1:
                return '(XNLabels %s)' % self.expr(a[0])
            if len(a) == 2 and all(isinstance(x, ast.Call) and isinstance(x.func, ast.Name) and x.func.id == 'max'
                                   and len(x.args) == 1 and not x.keywords for x in a):
                return '(XNLabels2 %s %s)' % (self.expr(a[0].args[0]), self.expr(a[1].args[0]))
            raise TranslateError('unsupported max(): ' + ast.unparse(e))
        if isinstance(e, ast.BinOp) and type(e.op) in BINOPS:
            return '(XBin %s %s %s)' % (BINOPS[type(e.op)], self.expr(e.left), self.expr(e.right))
        if isinstance(e, ast.Compare) and len(e.ops) == 1 and isinstance(e.ops[0], ast.GtE) \
                and isinstance(e.comparators[0], ast.Constant) and e.comparators[0].value == 0 \
                and not isinstance(e.comparators[0].value, bool):
            return '(XGe0 %s)' % self.expr(e.left)
        if isinstance(e, ast.Subscript) and isinstance(e.value, ast.Attribute) and e.value.attr == 'shape' \
                and isinstance(e.slice, ast.Constant) and e.slice.value in (0, 1) and not isinstance(e.slice.value, bool):
            base = e.value.value
            if isinstance(base, ast.Name) and base.id == 'self':
                if self.shape_of_self is None:
                    raise TranslateError('self.shape is not known here')
                inner = '(XVar %s)' % _cstr(self.shape_of_self)
            else:
                inner = self.expr(base)
            return '(%s %s)' % ('XLen' if e.slice.value == 0 else 'XLenCols', inner)
        if isinstance(e, ast.Attribute) and e.attr == 'T':
            return '(XT %s)' % self.expr(e.value)
        if isinstance(e, ast.Call):
            f = e.func
            if isinstance(f, ast.Name) and f.id == 'len' and len(e.args) == 1 and not e.keywords:
                a = e.args[0]
                if isinstance(a, ast.Name) and a.id in self.degree_vars:
                    return '(XLen (XVar %s))' % _cstr(a.id)
                return '(XLen %s)' % self.expr(a)
            if self.is_call(e, 'np', 'ones', 1):
                return '(XOnes %s)' % self.expr(e.args[0])
            if isinstance(f, ast.Name) and f.id == 'normalize' and 'normalize' in self.want and len(e.args) == 1 and not e.keywords:
                return '(XNormalize %s)' % self.expr(e.args[0])
            if isinstance(f, ast.Name) and f.id == 'get_probs' and 'get_probs' in self.want and len(e.args) == 2 and not e.keywords:
                return '(XProbs %s %s)' % (self.expr(e.args[0]), self.expr(e.args[1]))
            if isinstance(f, ast.Name) and f.id == 'get_membership' and 'get_membership' in self.want and len(e.args) == 1 \
                    and not e.keywords:
                return '(XMembership %s)' % self.expr(e.args[0])
            if isinstance(f, ast.Name) and f.id == 'get_membership' and 'get_membership' in self.want and len(e.args) == 1 \
                    and len(e.keywords) == 1 and e.keywords[0].arg == 'n_labels':
                return '(XMembershipN %s %s)' % (self.expr(e.args[0]), self.expr(e.keywords[0].value))
            if self.is_call(e, 'sparse', 'csr_matrix', 1):
                return '(XCopy %s)' % self.expr(e.args[0])
            m = self.method(e, 'astype', 1)
            if m and isinstance(m[1][0], ast.Name) and m[1][0].id == 'float':
                return '(XCopy %s)' % self.expr(m[0])
            if m and isinstance(m[1][0], ast.Name) and m[1][0].id == 'bool':
                return '(XAsBool %s)' % self.expr(m[0])
            if isinstance(f, ast.Name) and f.id == 'diagonal_pseudo_inverse' and 'diagonal_pseudo_inverse' in self.want \
                    and len(e.args) == 1 and not e.keywords:
                return '(XPinvDiag %s)' % self.expr(e.args[0])
            if self.is_call(e, 'np', 'sqrt', 1):
                return '(XSqrt %s)' % self.expr(e.args[0])
            if isinstance(f, ast.Name) and f.id == 'add_self_loops' and 'add_self_loops' in self.want and len(e.args) == 1 \
                    and not e.keywords:
                return '(XAddSelfLoops %s)' % self.expr(e.args[0])
            if self.is_call(e, 'np', 'outer', 2):
                return '(XOuter %s %s)' % (self.expr(e.args[0]), self.expr(e.args[1]))
            for attr, node in (('mean', 'XMeanAxis0'), ('sum', 'XSumAxis0')):
                if isinstance(f, ast.Attribute) and f.attr == attr and not e.args and len(e.keywords) == 1 \
                        and e.keywords[0].arg == 'axis' and isinstance(e.keywords[0].value, ast.Constant) and e.keywords[0].value.value == 0:
                    return '(%s %s)' % (node, self.expr(f.value))
            m = self.method(e, 'mean')
            if m and not isinstance(m[0], ast.Subscript):
                return '(XMean %s)' % self.expr(m[0])
            m = self.method(e, 'diagonal')
            if m:
                return '(XDiagonal %s)' % self.expr(m[0])
            m = self.method(e, 'sum')
            if m:
                recv = m[0]
                if isinstance(recv, ast.Attribute) and recv.attr == 'data':      # M.data.sum(): the sum of the stored entries
                    recv = recv.value
                return '(XSum %s)' % self.expr(recv)
            m = self.method(e, 'mean')
            if m and isinstance(m[0], ast.Subscript) and isinstance(m[0].slice, ast.Name) and isinstance(m[0].value, ast.Name):
                return '(XMaskMean (XVar %s) (XVar %s))' % (_cstr(m[0].value.id), _cstr(m[0].slice.id))
            for attr in ('copy', 'tocsr'):
                m = self.method(e, attr)
                if m:
                    inner = m[0]
                    # sparse.diags((degrees == 0).astype(int)).tocsr() / sparse.identity(n).tocsr()
                    if self.is_call(inner, 'sparse', 'diags', 1):
                        am = self.method(inner.args[0], 'astype', 1)
                        if am and isinstance(am[1][0], ast.Name) and am[1][0].id == 'int':
                            c = am[0]
                            if isinstance(c, ast.Compare) and len(c.ops) == 1 and isinstance(c.ops[0], ast.Eq) \
                                    and isinstance(c.left, ast.Name) and c.left.id in self.degree_vars \
                                    and isinstance(c.comparators[0], ast.Constant) and c.comparators[0].value == 0 \
                                    and not isinstance(c.comparators[0].value, bool):
                                return '(XDiagMask (XZeroRows (XVar %s)))' % _cstr(c.left.id)
                        raise TranslateError('unsupported sparse.diags argument: ' + ast.unparse(inner))
                    if self.is_call(inner, 'sparse', 'identity', 1):
                        return '(XIdentity %s)' % self.expr(inner.args[0])
                    return '(XCopy %s)' % self.expr(inner)
            m = self.method(e, 'dot', 1)
            if m:
                return '(XDot %s %s)' % (self.expr(m[0]), self.expr(m[1][0]))
        raise TranslateError('unsupported expression: ' + ast.unparse(e))

    # ---------------------------------------------------------------- statements
    @staticmethod
    def strip(stmts):
        return [s for s in stmts if not (isinstance(s, ast.Expr) and isinstance(s.value, ast.Constant)
                                         and isinstance(s.value.value, str))]

    @staticmethod
    def names_read(stmts):
        return {n.id for s in stmts for n in ast.walk(s) if isinstance(n, ast.Name)}

    def assign_target(self, s):
        """variable assigned by a simple statement (x = e, x op= e, x[m] = y[m]); None otherwise"""
        if isinstance(s, ast.Assign) and len(s.targets) == 1:
            t = s.targets[0]
            if isinstance(t, ast.Name):
                return t.id
            if isinstance(t, ast.Subscript) and isinstance(t.value, ast.Name):
                return t.value.id
        if isinstance(s, ast.AugAssign) and isinstance(s.target, ast.Name):
            return s.target.id
        return None

    def simple(self, s, cont):
        """x = e | x += e | x[m] = y[m], followed by the continuation term"""
        if isinstance(s, ast.Assign) and len(s.targets) == 1:
            t = s.targets[0]
            if isinstance(t, ast.Name):
                v = s.value
                if isinstance(v, ast.Call) and isinstance(v.func, ast.Name) and v.func.id == 'get_degrees' \
                        and len(v.args) == 1 and not v.keywords:
                    # degrees = get_degrees(M): the variable stands for M; only `degrees == 0` and len(degrees) may follow
                    self.degree_vars.add(t.id)
                    return '(XLet %s %s %s)' % (_cstr(t.id), self.expr(v.args[0]), cont())
                self.degree_vars.discard(t.id)
                val = self.expr(v)
                return '(XLet %s %s %s)' % (_cstr(t.id), val, cont())
            if isinstance(t, ast.Subscript) and isinstance(t.value, ast.Name) and isinstance(t.slice, ast.Name):
                v = s.value
                if isinstance(v, ast.Subscript) and isinstance(v.value, ast.Name) and isinstance(v.slice, ast.Name) \
                        and v.slice.id == t.slice.id:
                    x = t.value.id
                    return '(XLet %s (XMaskSet (XVar %s) (XVar %s) (XVar %s)) %s)' % (
                        _cstr(x), _cstr(x), _cstr(t.slice.id), _cstr(v.value.id), cont())
        if isinstance(s, ast.AugAssign) and isinstance(s.target, ast.Name) and type(s.op) in BINOPS:
            x = s.target.id
            val = self.expr(s.value)
            return '(XLet %s (XBin %s (XVar %s) %s) %s)' % (_cstr(x), BINOPS[type(s.op)], _cstr(x), val, cont())
        raise TranslateError('unsupported statement: ' + ast.unparse(s).splitlines()[0])

    def block(self, stmts, final):
        """statements then the term `final()`"""
        stmts = self.strip(stmts)
        if not stmts:
            return final()
        s, rest = stmts[0], stmts[1:]
        nxt = lambda: self.block(rest, final)
        if isinstance(s, ast.Return) and not rest and s.value is not None and not isinstance(s.value, ast.Tuple):
            return self.expr(s.value)
        # x, y = init_temperatures(a, b): inline
        if isinstance(s, ast.Assign) and len(s.targets) == 1 and isinstance(s.targets[0], ast.Tuple) \
                and isinstance(s.value, ast.Call) and isinstance(s.value.func, ast.Name) and s.value.func.id in self.funcs:
            fn = self.funcs[s.value.func.id]
            targets = s.targets[0].elts
            if not all(isinstance(t, ast.Name) for t in targets) or s.value.keywords \
                    or not all(isinstance(a, ast.Name) for a in s.value.args):
                raise TranslateError('unsupported call: ' + ast.unparse(s))
            params = [a.arg for a in fn.args.args]
            if fn.args.vararg or fn.args.kwarg or fn.args.kwonlyargs or fn.args.defaults or len(params) != len(s.value.args):
                raise TranslateError('unsupported signature of ' + fn.name)
            args = [a.id for a in s.value.args]
            body = self.strip(fn.body)
            if not body or not isinstance(body[-1], ast.Return) or not isinstance(body[-1].value, ast.Tuple) \
                    or len(body[-1].value.elts) != len(targets) or not all(isinstance(x, ast.Name) for x in body[-1].value.elts):
                raise TranslateError('unsupported return of ' + fn.name)
            rets = [x.id for x in body[-1].value.elts]
            tnames = [t.id for t in targets]
            local = {self.assign_target(q) for q in ast.walk(fn) if isinstance(q, (ast.Assign, ast.AugAssign))} | set(params)
            later = self.names_read(rest)
            clash = (local & later) - set(tnames) - {a for a, p in zip(args, params) if a == p}
            if clash or None in local:
                raise TranslateError('locals of %s shadow variables of the caller: %r' % (fn.name, sorted(map(str, clash))))

            def after():
                out = nxt()
                for t, r_ in reversed(list(zip(tnames, rets))):
                    if t != r_:
                        out = '(XLet %s (XVar %s) %s)' % (_cstr(t), _cstr(r_), out)
                return out
            inner = self.block(body[:-1], after)
            for p, a in reversed(list(zip(params, args))):
                if p != a:
                    if p in args:
                        raise TranslateError('parameter / argument capture in ' + ast.unparse(s))
                    inner = '(XLet %s (XVar %s) %s)' % (_cstr(p), _cstr(a), inner)
            return inner
        if isinstance(s, ast.If) and isinstance(s.test, ast.Attribute) and isinstance(s.test.value, ast.Name) \
                and s.test.value.id == 'self' and s.test.attr in getattr(self, 'flags', ()) and not s.orelse:
            # if self.<boolean option>: <updates of one variable x>   ->   x = (XIfFlag "self.<option>" <x after the body> x)
            body = self.strip(s.body)
            tg = {self.assign_target(q) for q in body}
            if len(tg) != 1 or None in tg:
                raise TranslateError('an `if self.%s` block must update exactly one variable' % s.test.attr)
            x = tg.pop()
            inner = self.block(body, lambda: '(XVar %s)' % _cstr(x))
            return '(XLet %s (XIfFlag %s %s (XVar %s)) %s)' % (_cstr(x), _cstr('self.' + s.test.attr), inner, _cstr(x), nxt())
        if isinstance(s, ast.If) and getattr(self, 'str_choice', None) is not None:
            # if self.<option> == 'a': A elif self.<option> == 'b': B ...  -> the branch of the variant being generated (none: skip)
            attr, value = self.str_choice
            chain, cur, ok = [], s, True
            while True:
                t = cur.test
                if not (isinstance(t, ast.Compare) and len(t.ops) == 1 and isinstance(t.ops[0], ast.Eq) and ast.unparse(t.left) == 'self.' + attr
                        and isinstance(t.comparators[0], ast.Constant) and isinstance(t.comparators[0].value, str)):
                    ok = False
                    break
                chain.append((t.comparators[0].value, cur.body))
                if len(cur.orelse) == 1 and isinstance(cur.orelse[0], ast.If):
                    cur = cur.orelse[0]
                    continue
                if cur.orelse:
                    ok = False
                break
            if ok:
                self.str_values_seen = [v for v, _ in chain]
                chosen = [b for v, b in chain if v == value]
                return self.block(self.strip(chosen[0] if chosen else []) + rest, final)
        if isinstance(s, ast.If) and isinstance(s.test, ast.Compare) and len(s.test.ops) == 1:
            t = s.test
            # if X.ndim == 2: A else: B   -> the branch of the variant being generated
            if isinstance(t.ops[0], ast.Eq) and isinstance(t.left, ast.Attribute) and t.left.attr == 'ndim' \
                    and isinstance(t.comparators[0], ast.Constant) and t.comparators[0].value == 2 and self.ndim in (1, 2):
                return self.block(self.strip(s.body if self.ndim == 2 else s.orelse) + rest, final)
            # if c > 0: <updates of one variable x>   ->   x = (XIfPos c <x after the body> x)
            if isinstance(t.ops[0], ast.Gt) and isinstance(t.comparators[0], ast.Constant) and t.comparators[0].value == 0 \
                    and not isinstance(t.comparators[0].value, bool) and not s.orelse and self.name_of(t.left) is not None:
                body = self.strip(s.body)

                def targets(stmts):
                    out = set()
                    for q in stmts:
                        if isinstance(q, ast.If):
                            out |= targets(self.strip(q.body)) | targets(self.strip(q.orelse))
                        else:
                            out.add(self.assign_target(q))
                    return out
                tg = targets(body)
                read_later = self.names_read(rest)
                live = {x for x in tg if x in read_later}
                if None in tg or len(live) != 1:
                    raise TranslateError('an `if c > 0` block must update exactly one variable used afterwards: %r' % sorted(map(str, tg)))
                x = live.pop()
                inner = self.block(body, lambda: '(XVar %s)' % _cstr(x))
                return '(XLet %s (XIfPos (XVar %s) %s (XVar %s)) %s)' % (_cstr(x), _cstr(self.name_of(t.left)), inner, _cstr(x), nxt())
        if isinstance(s, ast.If):
            t = s.test
            if isinstance(t, ast.Compare) and len(t.ops) == 1 and isinstance(t.ops[0], ast.Is) and isinstance(t.left, ast.Name) \
                    and isinstance(t.comparators[0], ast.Constant) and t.comparators[0].value is None:
                b1, b2 = self.strip(s.body), self.strip(s.orelse)
                if len(b1) == 1 and len(b2) == 1 and isinstance(b1[0], ast.Assign) and isinstance(b2[0], ast.Assign) \
                        and len(b1[0].targets) == 1 and len(b2[0].targets) == 1 and isinstance(b1[0].targets[0], ast.Name) \
                        and isinstance(b2[0].targets[0], ast.Name) and b1[0].targets[0].id == b2[0].targets[0].id:
                    x = b1[0].targets[0].id
                    return '(XLet %s (XIfNone %s %s %s) %s)' % (_cstr(x), _cstr(t.left.id), self.expr(b1[0].value),
                                                               self.expr(b2[0].value), nxt())
            raise TranslateError('unsupported if: ' + ast.unparse(t))
        if isinstance(s, ast.For):
            it = s.iter
            if s.orelse or not isinstance(s.target, ast.Name) or not (isinstance(it, ast.Call) and isinstance(it.func, ast.Name)
                                                                      and it.func.id == 'range' and len(it.args) == 1 and not it.keywords):
                raise TranslateError('unsupported loop: ' + ast.unparse(s).splitlines()[0])
            body = self.strip(s.body)
            tg = {self.assign_target(q) for q in body}
            if len(tg) != 1 or None in tg or s.target.id in self.names_read(body):
                raise TranslateError('a loop body must update exactly one variable and not read the loop index')
            x = tg.pop()
            bodyterm = self.block(body, lambda: '(XVar %s)' % _cstr(x))
            return '(XLoop %s %s %s %s)' % (self.expr(it.args[0]), _cstr(x), bodyterm, nxt())
        return self.simple(s, nxt)


def _fit_core(tr, cls):
    for n in tr.tree.body:
        if isinstance(n, ast.ClassDef) and n.name == cls:
            fit = [m for m in n.body if isinstance(m, ast.FunctionDef) and m.name == 'fit']
            if len(fit) != 1:
                raise TranslateError('%s.fit not found' % cls)
            body = tr.strip(fit[0].body)
            break
    else:
        raise TranslateError('class %s not found' % cls)
    # prologue: self._init_vars(); adjacency, values, self.bipartite = get_adjacency_values(input_matrix, ...)
    if ast.unparse(body[0]) != 'self._init_vars()':
        raise TranslateError('%s.fit: unexpected first statement' % cls)
    want = ('adjacency, values, self.bipartite = get_adjacency_values(input_matrix, force_bipartite=force_bipartite, '
            'values=values, values_row=values_row, values_col=values_col)')
    if ast.unparse(body[1]) != want:
        raise TranslateError('%s.fit: unexpected call of get_adjacency_values: %s' % (cls, ast.unparse(body[1])))
    # core: up to `self.values_ = <name>`
    core = []
    for i, s in enumerate(body[2:]):
        if isinstance(s, ast.Assign) and len(s.targets) == 1 and ast.unparse(s.targets[0]) == 'self.values_':
            if not isinstance(s.value, ast.Name):
                raise TranslateError('%s.fit: self.values_ is not assigned from a variable' % cls)
            result = s.value.id
            tail = body[2 + i + 1:]
            break
        core.append(s)
    else:
        raise TranslateError('%s.fit: no assignment of self.values_' % cls)
    # epilogue: if self.bipartite: self._split_vars(input_matrix.shape); return self
    ep = [ast.unparse(x) for x in tail]
    if ep != ['if self.bipartite:\n    self._split_vars(input_matrix.shape)', 'return self']:
        raise TranslateError('%s.fit: unexpected epilogue: %r' % (cls, ep))
    return tr.block(core, lambda: '(XVar %s)' % _cstr(result))


def gen_npdiffusion():
    tree = ast.parse(_src(REL))
    out = ['(* generated by harness/translators/npvec.py from %s; do not edit *)' % REL,
           'From SKN Require Import Base.Util Model.NpExpr Model.NpVec.',
           'From Coq Require Import String.',
           'Local Open Scope string_scope.', '']
    for cls, name in (('Diffusion', 'src_diffusion_fit'), ('Dirichlet', 'src_dirichlet_fit')):
        tr = Tr(tree)
        term = _fit_core(tr, cls)
        out.append('(* %s: numeric core of %s.fit (inputs: adjacency, values, init, self.n_iter, self.damping_factor) *)' % (REL, cls))
        out.append('Definition %s : vexpr :=\n  %s.' % (name, term))
        out.append('')
    return '\n'.join(out)


FILES = {'NpDiffusion.v': gen_npdiffusion}


# ---------------------------------------------------------------------------------------------------------------------
# clustering/metrics.py: get_modularity (C06)
# ---------------------------------------------------------------------------------------------------------------------
MREL = 'sknetwork/clustering/metrics.py'
M_PROLOGUE = [
    'adjacency, bipartite = get_adjacency(input_matrix.astype(float))',
    "if bipartite:\n    if labels_col is None:\n        raise ValueError('For bipartite graphs, you must specify the labels of both rows and columns.')\n"
    "    else:\n        labels = np.hstack((labels, labels_col))",
    "if len(labels) != adjacency.shape[0]:\n    raise ValueError('Dimension mismatch between labels and input matrix.')",
]
M_EPILOGUE = ['if return_all:\n    return (mod, fit, div)\nelse:\n    return mod']


def gen_npmodularity():
    tree = ast.parse(_src(MREL))
    tr = Tr(tree, METRICS_IMPORTS)
    if 'get_modularity' not in tr.funcs:
        raise TranslateError('get_modularity not found')
    fn = tr.funcs['get_modularity']
    params = [a.arg for a in fn.args.args]
    if params != ['input_matrix', 'labels', 'labels_col', 'weights', 'resolution', 'return_all'] or fn.args.vararg or fn.args.kwarg:
        raise TranslateError('unexpected signature of get_modularity: %r' % params)
    body = tr.strip(fn.body)
    got = [ast.unparse(x) for x in body[:3]]
    if got != M_PROLOGUE:
        raise TranslateError('unexpected prologue of get_modularity: %r' % got)
    if [ast.unparse(x) for x in body[-1:]] != M_EPILOGUE:
        raise TranslateError('unexpected epilogue of get_modularity: %r' % ast.unparse(body[-1]))
    core = body[3:-1]
    out = ['(* generated by harness/translators/npvec.py from %s; do not edit *)' % MREL,
           'From SKN Require Import Base.Util Model.NpExpr Model.NpVec.',
           'From Coq Require Import String.',
           'Local Open Scope string_scope.', '']
    for var in ('mod', 'fit', 'div'):
        t = Tr(tree, METRICS_IMPORTS)
        term = t.block(core, lambda v=var: '(XVar %s)' % _cstr(v))
        out.append('(* %s: get_modularity, value of `%s` (inputs: adjacency, labels, weights, resolution) *)' % (MREL, var))
        out.append('Definition src_modularity_%s : vexpr :=\n  %s.' % (var, term))
        out.append('')
    return '\n'.join(out)


FILES['NpModularity.v'] = gen_npmodularity


# ---------------------------------------------------------------------------------------------------------------------
# clustering/base.py: BaseClustering._secondary_outputs (C05)
# ---------------------------------------------------------------------------------------------------------------------
BREL = 'sknetwork/clustering/base.py'
BASE_IMPORTS = {'normalize': 'sknetwork.linalg.normalizer', 'get_membership': 'sknetwork.utils.membership'}


def _if_attr(s, attr, negate=False):
    """s is `if self.attr:` (or `if not self.attr:`) -> (body, orelse)"""
    if not isinstance(s, ast.If):
        return None
    t = s.test
    if negate:
        if not (isinstance(t, ast.UnaryOp) and isinstance(t.op, ast.Not)):
            return None
        t = t.operand
    if isinstance(t, ast.Attribute) and isinstance(t.value, ast.Name) and t.value.id == 'self' and t.attr == attr:
        return s.body, s.orelse
    return None


def _self_assign(s, attr):
    if isinstance(s, ast.Assign) and len(s.targets) == 1 and ast.unparse(s.targets[0]) == 'self.' + attr:
        return s.value
    return None


def gen_npsecondary():
    tree = ast.parse(_src(BREL))
    cls = [n for n in tree.body if isinstance(n, ast.ClassDef) and n.name == 'BaseClustering']
    if len(cls) != 1:
        raise TranslateError('BaseClustering not found')
    fns = [m for m in cls[0].body if isinstance(m, ast.FunctionDef) and m.name == '_secondary_outputs']
    if len(fns) != 1:
        raise TranslateError('_secondary_outputs not found')
    body = Tr.strip(fns[0].body)
    # if self.return_probs or self.return_aggregate: <block>; return self
    if len(body) != 2 or ast.unparse(body[1]) != 'return self' or not isinstance(body[0], ast.If) \
            or ast.unparse(body[0].test) != 'self.return_probs or self.return_aggregate' or body[0].orelse:
        raise TranslateError('unexpected shape of _secondary_outputs')
    blk = Tr.strip(body[0].body)
    if len(blk) != 2 or ast.unparse(blk[0]) != 'input_matrix = input_matrix.astype(float)':
        raise TranslateError('unexpected start of _secondary_outputs')
    br = _if_attr(blk[1], 'bipartite', negate=True)
    if br is None:
        raise TranslateError('no `if not self.bipartite` in _secondary_outputs')
    sq, bip = Tr.strip(br[0]), Tr.strip(br[1])
    terms = {}

    def tr():
        return Tr(tree, BASE_IMPORTS)

    def outputs(stmts, prefix_stmts, wanted):
        """stmts: [..., if self.return_probs: <self.X = e>*, if self.return_aggregate: <assignments; self.aggregate_ = e>]"""
        for s in stmts:
            for flag in ('return_probs', 'return_aggregate'):
                b = _if_attr(s, flag)
                if b is None:
                    continue
                if b[1]:
                    raise TranslateError('unexpected else of `if self.%s`' % flag)
                inner = Tr.strip(b[0])
                for k, q in enumerate(inner):
                    for attr in wanted:
                        v = _self_assign(q, attr)
                        if v is None:
                            continue
                        if isinstance(v, ast.Attribute) and isinstance(v.value, ast.Name) and v.value.id == 'self':
                            continue            # self.probs_ = self.probs_row_: an alias, not a computation
                        t = tr()
                        pre = prefix_stmts + [x for x in inner[:k] if _self_assign(x, '') is None and not any(
                            _self_assign(x, a_) is not None for a_ in wanted)]
                        if attr in terms:
                            raise TranslateError('self.%s is assigned twice' % attr)
                        terms[attr] = t.block(pre, lambda v=v, t=t: t.expr(v))
    # square case
    pre_sq = [s for s in sq if _if_attr(s, 'return_probs') is None and _if_attr(s, 'return_aggregate') is None]
    outputs(sq, pre_sq, ['probs_', 'aggregate_'])
    sq_terms = dict(terms)
    terms.clear()
    # bipartite case: `if self.labels_col_ is None: ... else: <prefix>` then the two flag blocks
    if not bip or not isinstance(bip[0], ast.If) or ast.unparse(bip[0].test) != 'self.labels_col_ is None':
        raise TranslateError('unexpected start of the bipartite branch')
    pre_bip = Tr.strip(bip[0].orelse)
    outputs(bip[1:], pre_bip, ['probs_row_', 'probs_col_', 'aggregate_'])
    out = ['(* generated by harness/translators/npvec.py from %s; do not edit *)' % BREL,
           'From SKN Require Import Base.Util Model.NpExpr Model.NpVec.',
           'From Coq Require Import String.',
           'Local Open Scope string_scope.', '']
    for name, key, src in (('src_secondary_probs', 'probs_', sq_terms), ('src_secondary_aggregate', 'aggregate_', sq_terms),
                           ('src_secondary_probs_row', 'probs_row_', terms), ('src_secondary_probs_col', 'probs_col_', terms),
                           ('src_secondary_aggregate_bip', 'aggregate_', terms)):
        if key not in src:
            raise TranslateError('self.%s is not computed where expected' % key)
        out.append('(* %s: _secondary_outputs, value assigned to self.%s (%s case) *)' % (BREL, key, 'square' if src is sq_terms else 'bipartite'))
        out.append('Definition %s : vexpr :=\n  %s.' % (name, src[key]))
        out.append('')
    return '\n'.join(out)


FILES['NpSecondary.v'] = gen_npsecondary


# ---------------------------------------------------------------------------------------------------------------------
# linalg/ppr_solver.py: RandomSurferOperator (C04)
# ---------------------------------------------------------------------------------------------------------------------
PREL = 'sknetwork/linalg/ppr_solver.py'
PPR_IMPORTS = {'normalize': 'sknetwork.linalg.normalizer'}


def gen_nprso():
    tree = ast.parse(_src(PREL))
    cls = [n for n in tree.body if isinstance(n, ast.ClassDef) and n.name == 'RandomSurferOperator']
    if len(cls) != 1:
        raise TranslateError('RandomSurferOperator not found')
    meths = {m.name: m for m in cls[0].body if isinstance(m, ast.FunctionDef)}
    if set(meths) != {'__init__', '_matvec'}:
        raise TranslateError('unexpected methods of RandomSurferOperator: %r' % sorted(meths))
    init, mv = meths['__init__'], meths['_matvec']
    if [a.arg for a in init.args.args] != ['self', 'adjacency', 'seeds', 'damping_factor'] or [a.arg for a in mv.args.args] != ['self', 'x']:
        raise TranslateError('unexpected signatures in RandomSurferOperator')
    body = Tr.strip(init.body)
    if ast.unparse(body[0]) != 'super(RandomSurferOperator, self).__init__(shape=adjacency.shape, dtype=float)':
        raise TranslateError('unexpected first statement of RandomSurferOperator.__init__')
    stmts = []
    for s_ in body[1:]:
        if isinstance(s_, ast.If) and ast.unparse(s_.test) == "hasattr(adjacency, 'left_sparse_dot')":
            # a SciPy sparse matrix has no left_sparse_dot: the else branch (linear operators take the other one)
            stmts += Tr.strip(s_.orelse)
        else:
            stmts.append(s_)
    # self.X = e  ->  "self.X" = e
    conv = []
    for s_ in stmts:
        if isinstance(s_, ast.Assign) and len(s_.targets) == 1 and isinstance(s_.targets[0], ast.Attribute) \
                and isinstance(s_.targets[0].value, ast.Name) and s_.targets[0].value.id == 'self':
            if s_.targets[0].attr not in ('a', 'b', 'restart'):
                raise TranslateError('unexpected attribute self.%s' % s_.targets[0].attr)
            conv.append(('self.' + s_.targets[0].attr, s_.value))
        elif isinstance(s_, ast.Assign) and len(s_.targets) == 1 and isinstance(s_.targets[0], ast.Name):
            conv.append((s_.targets[0].id, s_.value))
        else:
            raise TranslateError('unsupported statement in __init__: ' + ast.unparse(s_))
    if {k for k, _ in conv if k.startswith('self.')} != {'self.a', 'self.b', 'self.restart'}:
        raise TranslateError('__init__ does not set exactly self.a, self.b, self.restart')
    mvb = Tr.strip(mv.body)
    if len(mvb) != 1 or not isinstance(mvb[0], ast.Return):
        raise TranslateError('unexpected body of _matvec')
    tr = Tr(tree, PPR_IMPORTS)
    term = tr.expr(mvb[0].value)
    for name, val in reversed(conv):
        term = '(XLet %s %s %s)' % (_cstr(name), tr.expr(val), term)
    out = ['(* generated by harness/translators/npvec.py from %s; do not edit *)' % PREL,
           'From SKN Require Import Base.Util Model.NpExpr Model.NpVec.',
           'From Coq Require Import String.',
           'Local Open Scope string_scope.', '',
           '(* %s: RandomSurferOperator(adjacency, seeds, damping_factor)._matvec(x), sparse-matrix branch *)' % PREL,
           'Definition src_rso_matvec : vexpr :=\n  %s.' % term, '']
    return '\n'.join(out)


FILES['NpRso.v'] = gen_nprso


# ---------------------------------------------------------------------------------------------------------------------
# linalg/operators.py: Normalizer (C15)
# ---------------------------------------------------------------------------------------------------------------------
OREL = 'sknetwork/linalg/operators.py'
OPS_IMPORTS = {'diagonal_pseudo_inverse': 'sknetwork.linalg', 'normalize': 'sknetwork.linalg.normalizer'}


def gen_npnormalizer():
    tree = ast.parse(_src(OREL))
    cls = [n for n in tree.body if isinstance(n, ast.ClassDef) and n.name == 'Normalizer']
    if len(cls) != 1:
        raise TranslateError('Normalizer not found')
    meths = {m.name: m for m in cls[0].body if isinstance(m, ast.FunctionDef)}
    if set(meths) != {'__init__', '_matvec', '_rmatvec'}:
        raise TranslateError('unexpected methods of Normalizer: %r' % sorted(meths))
    init = meths['__init__']
    if [a.arg for a in init.args.args] != ['self', 'adjacency', 'regularization']:
        raise TranslateError('unexpected signature of Normalizer.__init__')
    body = Tr.strip(init.body)
    want0 = ['if adjacency.ndim == 1:\n    adjacency = adjacency.reshape(1, -1)',
             'super(Normalizer, self).__init__(dtype=float, shape=adjacency.shape)']
    if [ast.unparse(x) for x in body[:2]] != want0:
        raise TranslateError('unexpected start of Normalizer.__init__')
    attrs = ('regularization', 'adjacency', 'norm_diag')
    pre = []
    for s_ in body[2:]:
        if isinstance(s_, ast.Assign) and len(s_.targets) == 1 and isinstance(s_.targets[0], ast.Attribute) \
                and isinstance(s_.targets[0].value, ast.Name) and s_.targets[0].value.id == 'self':
            if s_.targets[0].attr not in attrs:
                raise TranslateError('unexpected attribute self.%s' % s_.targets[0].attr)
            pre.append(('self.' + s_.targets[0].attr, s_.value))
        elif isinstance(s_, ast.Assign) and len(s_.targets) == 1 and isinstance(s_.targets[0], ast.Name):
            pre.append((s_.targets[0].id, s_.value))
        else:
            raise TranslateError('unsupported statement in Normalizer.__init__: ' + ast.unparse(s_))
    if {k for k, _ in pre if k.startswith('self.')} != {'self.' + a for a in attrs}:
        raise TranslateError('Normalizer.__init__ does not set exactly %r' % (attrs,))
    out = ['(* generated by harness/translators/npvec.py from %s; do not edit *)' % OREL,
           'From SKN Require Import Base.Util Model.NpExpr Model.NpVec.',
           'From Coq Require Import String.',
           'Local Open Scope string_scope.', '']
    for meth in ('_matvec', '_rmatvec'):
        fn = meths[meth]
        if [a.arg for a in fn.args.args] != ['self', 'matrix']:
            raise TranslateError('unexpected signature of Normalizer.%s' % meth)
        for ndim in (1, 2):
            tr = Tr(tree, OPS_IMPORTS)
            tr.ndim = ndim
            tr.self_attrs = attrs
            tr.shape_of_self = 'adjacency'
            mb = Tr.strip(fn.body)
            if not isinstance(mb[-1], ast.Return):
                raise TranslateError('Normalizer.%s does not end in return' % meth)

            def no_final():
                raise TranslateError('Normalizer method without return')
            term = tr.block(mb, no_final)
            for name, val in reversed(pre):
                term = '(XLet %s %s %s)' % (_cstr(name), tr.expr(val), term)
            nm = 'src_normalizer%s_%dd' % (meth, ndim)
            out.append('(* %s: Normalizer(adjacency, regularization).%s(matrix), matrix.ndim == %d *)' % (OREL, meth, ndim))
            out.append('Definition %s : vexpr :=\n  %s.' % (nm, term))
            out.append('')
    return '\n'.join(out)


FILES['NpNormalizer.v'] = gen_npnormalizer


# ---------------------------------------------------------------------------------------------------------------------
# embedding/louvain_embedding.py: closed form of LouvainEmbedding (C09)
# ---------------------------------------------------------------------------------------------------------------------
LREL = 'sknetwork/embedding/louvain_embedding.py'
LE_IMPORTS = {'normalize': 'sknetwork.linalg.normalizer', 'get_membership': 'sknetwork.utils.membership'}


def gen_nplouvainembedding():
    tree = ast.parse(_src(LREL))
    cls = [n for n in tree.body if isinstance(n, ast.ClassDef) and n.name == 'LouvainEmbedding']
    if len(cls) != 1:
        raise TranslateError('LouvainEmbedding not found')
    fit = [m for m in cls[0].body if isinstance(m, ast.FunctionDef) and m.name == 'fit']
    if len(fit) != 1:
        raise TranslateError('LouvainEmbedding.fit not found')
    body = Tr.strip(fit[0].body)
    # ... self.labels_, labels_row = reindex_labels(labels, labels_secondary, self.isolated_nodes)
    idx = [i for i, s_ in enumerate(body) if ast.unparse(s_) == 'self.labels_, labels_row = reindex_labels(labels, labels_secondary, self.isolated_nodes)']
    if len(idx) != 1:
        raise TranslateError('reindex_labels call not found in LouvainEmbedding.fit')
    tail = body[idx[0] + 1:]
    want_tail = ['probs = normalize(input_matrix)', 'embedding_ = probs.dot(get_membership(self.labels_))',
                 'self.embedding_ = embedding_.toarray()']
    if [ast.unparse(x) for x in tail[:3]] != want_tail:
        # the three statements are translated below whatever their exact text; this only fixes which ones they are
        pass
    if len(tail) != 5 or ast.unparse(tail[4]) != 'return self' or not isinstance(tail[3], ast.If) \
            or ast.unparse(tail[3].test) != 'labels_row is not None' or tail[3].orelse:
        raise TranslateError('unexpected end of LouvainEmbedding.fit')

    def emit(stmts, attr):
        tr = Tr(tree, LE_IMPORTS)
        tr.self_attrs = ('labels_',)
        pre, val = [], None
        for s_ in stmts:
            v = _self_assign(s_, attr)
            if v is not None:
                val = v
                break
            if _self_assign(s_, 'embedding_row_') is not None:
                continue
            pre.append(s_)
        if val is None:
            raise TranslateError('self.%s is not assigned where expected' % attr)
        m = tr.method(val, 'toarray')
        if not m:
            raise TranslateError('self.%s is not <matrix>.toarray()' % attr)
        return tr.block(pre, lambda: tr.expr(m[0]))
    t_main = emit(tail[:3], 'embedding_')
    t_col = emit(Tr.strip(tail[3].body), 'embedding_col_')
    out = ['(* generated by harness/translators/npvec.py from %s; do not edit *)' % LREL,
           'From SKN Require Import Base.Util Model.NpExpr Model.NpVec.',
           'From Coq Require Import String.',
           'Local Open Scope string_scope.', '',
           '(* %s: LouvainEmbedding.fit, value of self.embedding_ (inputs: input_matrix, self.labels_ after reindex_labels) *)' % LREL,
           'Definition src_louvain_embedding : vexpr :=\n  %s.' % t_main, '',
           '(* %s: LouvainEmbedding.fit, value of self.embedding_col_ (inputs: input_matrix, labels_row) *)' % LREL,
           'Definition src_louvain_embedding_col : vexpr :=\n  %s.' % t_col, '']
    return '\n'.join(out)


FILES['NpLouvainEmbedding.v'] = gen_nplouvainembedding


# ---------------------------------------------------------------------------------------------------------------------
# gnn/layer.py: Convolution.forward, pre-activation embedding (C19)
# ---------------------------------------------------------------------------------------------------------------------
GREL = 'sknetwork/gnn/layer.py'
LAYER_IMPORTS = {'diagonal_pseudo_inverse': 'sknetwork.linalg', 'add_self_loops': 'sknetwork.utils.check'}


def gen_npconv():
    tree = ast.parse(_src(GREL))
    cls = [n for n in tree.body if isinstance(n, ast.ClassDef) and n.name == 'Convolution']
    if len(cls) != 1:
        raise TranslateError('Convolution not found')
    fw = [m for m in cls[0].body if isinstance(m, ast.FunctionDef) and m.name == 'forward']
    if len(fw) != 1 or [a.arg for a in fw[0].args.args] != ['self', 'adjacency', 'features']:
        raise TranslateError('unexpected Convolution.forward')
    body = Tr.strip(fw[0].body)
    if ast.unparse(body[0]) != 'if not self.weights_initialized:\n    self._initialize_weights(features.shape[1])':
        raise TranslateError('unexpected start of Convolution.forward')
    # ... embedding statements ..., output = self.activation.output(embedding); self.embedding = embedding; self.output = output; return output
    tail = [ast.unparse(x) for x in body[-4:]]
    if tail != ['output = self.activation.output(embedding)', 'self.embedding = embedding', 'self.output = output', 'return output']:
        raise TranslateError('unexpected end of Convolution.forward: %r' % tail)
    core = body[1:-4]
    # n_row, n_col = adjacency.shape  ->  two assignments
    conv = []
    for s_ in core:
        if ast.unparse(s_) == 'n_row, n_col = adjacency.shape':
            conv += ast.parse('n_row = adjacency.shape[0]\nn_col = adjacency.shape[1]').body
        else:
            conv.append(s_)
    out = ['(* generated by harness/translators/npvec.py from %s; do not edit *)' % GREL,
           'From SKN Require Import Base.Util Model.NpExpr Model.NpVec.',
           'From Coq Require Import String.',
           'Local Open Scope string_scope.', '']
    seen = None
    for norm in ('left', 'right', 'both', 'none'):
        tr = Tr(tree, LAYER_IMPORTS)
        tr.self_attrs = ('weight', 'bias')
        tr.flags = ('self_embeddings', 'use_bias')
        tr.str_choice = ('normalization', norm)
        term = tr.block(conv, lambda: '(XVar "embedding")')
        if getattr(tr, 'str_values_seen', None) != ['left', 'right', 'both']:
            raise TranslateError('unexpected normalisation branches: %r' % getattr(tr, 'str_values_seen', None))
        out.append('(* %s: Convolution.forward, value of `embedding` (pre-activation) for normalization = %r; self_embeddings and use_bias are read from the environment *)' % (GREL, norm))
        out.append('Definition src_conv_embedding_%s : vexpr :=\n  %s.' % (norm, term))
        out.append('')
    return '\n'.join(out)


FILES['NpConv.v'] = gen_npconv

"""Facts of sknetwork/hierarchy/paris.pyx the C07 models are parametrised by (Gen/ParisSrc.v), line-level scan:

  * paris_src_clamp: how the height of a merge row is computed.  `dendrogram.append([node, nearest_neighbor,
    1. / max_sim, size])` -> false (the code as released: defect D25).  The repaired form
        H = max(1. / max_sim, X.get(node, 0.), X.get(nearest_neighbor, 0.))
        X[aggregate_graph.next_cluster] = H
        dendrogram.append([node, nearest_neighbor, H, size])
    (before `aggregate_graph.merge(node, nearest_neighbor)`, X initialised as `X = {}`) -> true.
  * paris_src_float32: the C type of the similarity variables (`sim`, `a`, `b`, `den` in `similarity`,
    `total_weight` in `__init__`, `sim`, `max_sim` in `fit`): all `float` -> true, all `double` -> false.
  * (sanity, fail-closed) the tie rule `nearest_neighbor = min(neighbor, nearest_neighbor)` under `elif sim == max_sim`,
    the strict `if sim > max_sim`, the component rows at `float("inf")`, `if self.reorder:`.
Anything else raises TranslateError (the check then reports the correspondence as broken).
"""
import re

from ..translate import TranslateError, _src


def _lines():
    out = []
    for l in _src('sknetwork/hierarchy/paris.pyx').splitlines():
        l = l.split('#', 1)[0].strip()
        if l:
            out.append(l)
    return out


def _one(lines, pattern, what):
    hits = [m for m in (re.fullmatch(pattern, l) for l in lines) if m]
    if len(hits) != 1:
        raise TranslateError('paris.pyx: expected exactly one %s, found %d' % (what, len(hits)))
    return hits[0]


def paris_src():
    lines = _lines()
    # ---- height of a merge row
    m = _one(lines, r'dendrogram\.append\(\[node, nearest_neighbor, (.+), size\]\)', 'merge row `dendrogram.append([node, nearest_neighbor, ..., size])`')
    h = m.group(1).strip()
    k_append = lines.index(m.group(0))
    k_merge = lines.index(_one(lines, r'aggregate_graph\.merge\(node, nearest_neighbor\)', 'aggregate_graph.merge(node, nearest_neighbor)').group(0))
    if not k_append < k_merge:
        raise TranslateError('paris.pyx: the row is appended after the merge')
    if re.fullmatch(r'1\.?0? ?/ ?max_sim', h):
        clamp = False
    elif re.fullmatch(r'[A-Za-z_]\w*', h):
        zero = r'0(?:\.0?)?'
        a = _one(lines, r'%s = max\(1\.?0? ?/ ?max_sim, (\w+)\.get\(node, %s\), (\w+)\.get\(nearest_neighbor, %s\)\)' % (re.escape(h), zero, zero),
                 'assignment `%s = max(1. / max_sim, X.get(node, 0.), X.get(nearest_neighbor, 0.))`' % h)
        if a.group(1) != a.group(2):
            raise TranslateError('paris.pyx: two different height dicts')
        x = a.group(1)
        s = _one(lines, r'%s\[aggregate_graph\.next_cluster\] = %s' % (re.escape(x), re.escape(h)), 'store `%s[aggregate_graph.next_cluster] = %s`' % (x, h))
        i = _one(lines, r'%s = (?:\{\}|dict\(\))' % re.escape(x), 'initialisation `%s = {}`' % x)
        ka, ks, ki = lines.index(a.group(0)), lines.index(s.group(0)), lines.index(i.group(0))
        if not (ki < ka < ks < k_merge and ka < k_append):
            raise TranslateError('paris.pyx: height clamp statements in an unexpected order')
        if sum(1 for l in lines if re.match(r'%s\b' % re.escape(x), l) or ('%s[' % x) in l or ('%s.' % x) in l) != 3:
            raise TranslateError('paris.pyx: the height dict %s is used elsewhere' % x)
        clamp = True
    else:
        raise TranslateError('paris.pyx: unrecognised height expression %r' % h)
    # ---- C types of the similarity variables
    types = []
    for name, count in (('total_weight', 1), ('sim', 2), ('a', 1), ('b', 1), ('den', 1), ('max_sim', 1)):
        hits = [mm.group(1) for mm in (re.fullmatch(r'cdef (float|double) %s(?: = .*)?' % name, l) for l in lines) if mm]
        if len(hits) != count:
            raise TranslateError('paris.pyx: expected %d declaration(s) `cdef float|double %s`, found %d' % (count, name, len(hits)))
        types += hits
    ret = [mm.group(1) for mm in (re.fullmatch(r'cdef (float|double) similarity\(self, int node1, int node2\):', l) for l in lines) if mm]
    if len(ret) != 1:
        raise TranslateError('paris.pyx: signature of similarity not recognised')
    types += ret
    if len(set(types)) != 1:
        raise TranslateError('paris.pyx: similarity variables of mixed C types %s' % sorted(set(types)))
    float32 = types[0] == 'float'
    # ---- tie branch of the nearest-neighbour scan
    k = lines.index(_one(lines, r'if sim > max_sim:', 'strict comparison `if sim > max_sim:`').group(0))
    if lines[k + 1:k + 3] != ['nearest_neighbor = neighbor', 'max_sim = sim']:
        raise TranslateError('paris.pyx: unrecognised body of `if sim > max_sim:`')
    nxt = lines[k + 3] if k + 3 < len(lines) else ''
    choice = lines[k + 4] if k + 4 < len(lines) else ''
    m = re.fullmatch(r'elif (.+):', nxt)
    if m is None:
        if nxt.startswith(('else', 'if ')) and 'max_sim' in nxt:
            raise TranslateError('paris.pyx: unrecognised continuation of the nearest-neighbour scan: %r' % nxt)
        tie_exact = False                                   # no tie branch
    else:
        cond = m.group(1).strip()
        names = set(re.findall(r'[A-Za-z_]\w*', cond))
        if not ({'sim', 'max_sim'} <= names) or not (re.search(r'==|>=|<=|<|>', cond) or 'isclose' in names):
            raise TranslateError('paris.pyx: unrecognised tie test %r' % cond)
        if not re.fullmatch(r'nearest_neighbor = .+', choice):
            raise TranslateError('paris.pyx: unrecognised statement under the tie test: %r' % choice)
        tie_exact = cond == 'sim == max_sim' and choice == 'nearest_neighbor = min(neighbor, nearest_neighbor)'
    # ---- decisions the model mirrors (sanity)
    for pat, what in (
                      (r'dendrogram\.append\(\[node, next_node, float\("inf"\), cluster_size\]\)', 'component row at float("inf")'),
                      (r'if self\.reorder:', '`if self.reorder:`'),
                      (r'dendrogram = reorder_dendrogram\(dendrogram\)', 'call of reorder_dendrogram'),
                      (r'if den > 0:', '`if den > 0:`'),
                      (r'sim = 2 \* self\.neighbors\[node1\]\[node2\] / den', 'similarity formula')):
        _one(lines, pat, what)
    return ('(* generated from sknetwork/hierarchy/paris.pyx *)\n'
            'Definition paris_src_clamp : bool := %s.\n'
            'Definition paris_src_float32 : bool := %s.\n'
            'Definition paris_src_tie_exact : bool := %s.\n'
            % ('true' if clamp else 'false', 'true' if float32 else 'false', 'true' if tie_exact else 'false'))


FILES = {'ParisSrc.v': paris_src}

"""How sknetwork/data/load.py checks archive member paths (C18): which os.path function compares the
two paths, which normalisation each argument gets, and how safe_extract uses the check."""
import ast

from ..translate import TranslateError, _src, _func, _calls, _bool

FUNS = {'commonprefix': 'CommonPrefix', 'commonpath': 'CommonPath'}
NORMS = {'abspath': 'Abspath', 'realpath': 'Realpath'}


def _callee(call):
    f = call.func
    if isinstance(f, ast.Name):
        return f.id
    if isinstance(f, ast.Attribute):      # os.path.abspath / path.abspath
        return f.attr
    raise TranslateError('unsupported callee: ' + ast.unparse(call))


def _imports(tree):
    """local name -> (module, original name) for `from m import a as b`."""
    out = {}
    for n in tree.body:
        if isinstance(n, ast.ImportFrom):
            for a in n.names:
                out[a.asname or a.name] = (n.module, a.name)
    return out


def _norm_of(expr, param):
    """expr is `N(param)` or `param`; returns the model constructor."""
    if isinstance(expr, ast.Name) and expr.id == param:
        return 'NoNorm'
    if isinstance(expr, ast.Call) and len(expr.args) == 1 and not expr.keywords \
            and isinstance(expr.args[0], ast.Name) and expr.args[0].id == param:
        name = _callee(expr)
        if name in NORMS:
            return NORMS[name]
    raise TranslateError('unsupported normalisation of %s: %s' % (param, ast.unparse(expr)))


def gen_pathcheck():
    tree = ast.parse(_src('sknetwork/data/load.py'))
    imports = _imports(tree)
    for name in list(FUNS) + list(NORMS) + ['join']:
        if name in imports and imports[name] != ('os.path', name):
            raise TranslateError('%s is not os.path.%s' % (name, name))
    fn = _func(tree, 'is_within_directory')
    params = [a.arg for a in fn.args.args]
    if len(params) != 2 or fn.args.vararg or fn.args.kwarg or fn.args.kwonlyargs or fn.args.defaults:
        raise TranslateError('unexpected signature of is_within_directory')
    p_dir, p_target = params
    body = [s for s in fn.body if not (isinstance(s, ast.Expr) and isinstance(s.value, ast.Constant))]
    if len(body) != 4 or not all(isinstance(s, ast.Assign) and len(s.targets) == 1 and isinstance(s.targets[0], ast.Name)
                                 for s in body[:3]) or not isinstance(body[3], ast.Return):
        raise TranslateError('unexpected body of is_within_directory')
    v_dir, v_target, v_prefix = (s.targets[0].id for s in body[:3])
    if len({v_dir, v_target, v_prefix, p_dir, p_target}) != 5:
        raise TranslateError('variables of is_within_directory are reused')
    norm_dir = _norm_of(body[0].value, p_dir)
    norm_target = _norm_of(body[1].value, p_target)
    call = body[2].value
    if not (isinstance(call, ast.Call) and len(call.args) == 1 and not call.keywords and isinstance(call.args[0], (ast.List, ast.Tuple))):
        raise TranslateError('unexpected computation of the prefix: ' + ast.unparse(body[2]))
    fname = _callee(call)
    if fname not in FUNS:
        raise TranslateError('unknown path function ' + fname)
    elts = [ast.unparse(e) for e in call.args[0].elts]
    if sorted(elts) != sorted([v_dir, v_target]):
        raise TranslateError('prefix is not computed from the two normalised paths: ' + ast.unparse(call))
    ret = body[3].value
    ok_ret = isinstance(ret, ast.Compare) and len(ret.ops) == 1 and isinstance(ret.ops[0], ast.Eq) and \
        sorted([ast.unparse(ret.left), ast.unparse(ret.comparators[0])]) == sorted([v_prefix, v_dir])
    if not ok_ret:
        raise TranslateError('unexpected return of is_within_directory: ' + ast.unparse(ret))
    # ---- safe_extract: every member checked against the extraction path, exception on failure, then extractall
    se = _func(tree, 'safe_extract')
    se_params = [a.arg for a in se.args.args]
    if len(se_params) < 2:
        raise TranslateError('unexpected signature of safe_extract')
    p_tar, p_path = se_params[0], se_params[1]
    sbody = [s for s in se.body if not (isinstance(s, ast.Expr) and isinstance(s.value, ast.Constant))]
    if len(sbody) != 2 or not isinstance(sbody[0], ast.For) or not isinstance(sbody[1], ast.Expr):
        raise TranslateError('unexpected body of safe_extract')
    loop, last = sbody
    every_member = ast.unparse(loop.iter) == '%s.getmembers()' % p_tar and isinstance(loop.target, ast.Name) and not loop.orelse
    m = loop.target.id if isinstance(loop.target, ast.Name) else '?'
    lb = loop.body
    joined = len(lb) == 2 and isinstance(lb[0], ast.Assign) and len(lb[0].targets) == 1 and \
        isinstance(lb[0].targets[0], ast.Name) and ast.unparse(lb[0].value) == 'join(%s, %s.name)' % (p_path, m)
    v_member = lb[0].targets[0].id if joined else '?'
    raises = len(lb) == 2 and isinstance(lb[1], ast.If) and not lb[1].orelse and \
        ast.unparse(lb[1].test) == 'not is_within_directory(%s, %s)' % (p_path, v_member) and \
        len(lb[1].body) == 1 and isinstance(lb[1].body[0], ast.Raise)
    ex = last.value
    extract_same_path = isinstance(ex, ast.Call) and ast.unparse(ex.func) == '%s.extractall' % p_tar and \
        len(ex.args) >= 1 and ast.unparse(ex.args[0]) == p_path
    # the path variable must not be reassigned anywhere in safe_extract
    for n in ast.walk(se):
        if isinstance(n, (ast.Assign, ast.AugAssign, ast.AnnAssign)):
            tg = n.targets if isinstance(n, ast.Assign) else [n.target]
            if any(isinstance(t, ast.Name) and t.id in (p_path, p_tar) for t in tg):
                raise TranslateError('safe_extract reassigns its arguments')
    # every extraction in load.py goes through safe_extract
    direct = [n for n in ast.walk(tree) if isinstance(n, ast.Call) and isinstance(n.func, ast.Attribute)
              and n.func.attr in ('extractall', 'extract')]
    only_via_safe = all(any(n is x for x in ast.walk(se)) for n in direct)
    lines = ['(* generated from sknetwork/data/load.py: is_within_directory, safe_extract *)',
             'From SKN Require Import Model.PathSafe.',
             'Definition pc_function : path_fun := %s.' % FUNS[fname],
             'Definition pc_norm_directory : path_norm := %s.' % norm_dir,
             'Definition pc_norm_target : path_norm := %s.' % norm_target,
             'Definition se_checks_every_member : bool := %s.' % _bool(every_member and joined),
             'Definition se_raises_on_failure : bool := %s.' % _bool(raises),
             'Definition se_extracts_to_checked_path : bool := %s.' % _bool(extract_same_path),
             'Definition se_only_extraction_site : bool := %s.' % _bool(only_via_safe)]
    return '\n'.join(lines) + '\n'


def gen_parsecalls():
    """How from_edge_array symmetrises: whether its call of directed2undirected hands over `weighted`."""
    tree = ast.parse(_src('sknetwork/data/parse.py'))
    fmt = ast.parse(_src('sknetwork/utils/format.py'))
    fn = _func(tree, 'from_edge_array')
    callee = _func(fmt, 'directed2undirected')
    formals = [a.arg for a in callee.args.args]
    if formals != ['adjacency', 'weighted'] or callee.args.kwonlyargs or callee.args.vararg or callee.args.kwarg:
        raise TranslateError('unexpected signature of directed2undirected: %s' % formals)
    default = callee.args.defaults
    if len(default) != 1 or ast.unparse(default[0]) != 'True':
        raise TranslateError('unexpected default of directed2undirected(weighted=...)')
    calls = _calls(fn, 'directed2undirected')
    if len(calls) != 1:
        raise TranslateError('expected exactly one call of directed2undirected in from_edge_array')
    call = calls[0]
    if any(isinstance(a, ast.Starred) for a in call.args) or any(k.arg is None for k in call.keywords):
        raise TranslateError('star arguments in the call of directed2undirected')
    bound = {}
    for formal, actual in zip(formals, call.args):
        bound[formal] = ast.unparse(actual)
    for k in call.keywords:
        if k.arg not in formals or k.arg in bound:
            raise TranslateError('unexpected keyword in the call of directed2undirected')
        bound[k.arg] = ast.unparse(k.value)
    if bound.get('adjacency') != 'matrix':
        raise TranslateError('directed2undirected is not applied to `matrix`')
    if 'weighted' not in bound:
        passes = False
    elif bound['weighted'] == 'weighted':
        passes = True
    else:
        raise TranslateError('unsupported weighted argument: ' + bound['weighted'])
    # the call must be the whole right-hand side of `matrix = ...` guarded by `if not directed:`
    ok = False
    for n in ast.walk(fn):
        if isinstance(n, ast.If) and ast.unparse(n.test) == 'not directed' and not n.orelse and len(n.body) == 1 \
                and isinstance(n.body[0], ast.Assign) and n.body[0].value is call and ast.unparse(n.body[0].targets[0]) == 'matrix':
            ok = True
    if not ok:
        raise TranslateError('unexpected context of the directed2undirected call in from_edge_array')
    # `weighted` must still be the function's flag at that point (never reassigned)
    for n in ast.walk(fn):
        if isinstance(n, (ast.Assign, ast.AugAssign, ast.AnnAssign)):
            tg = n.targets if isinstance(n, ast.Assign) else [n.target]
            if any(isinstance(t, ast.Name) and t.id in ('weighted', 'directed') for t in tg):
                raise TranslateError('from_edge_array reassigns a flag')
    lines = ['(* generated from sknetwork/data/parse.py: from_edge_array -> directed2undirected *)',
             'Definition pp_sym_passes_weighted : bool := %s.' % _bool(passes)]
    return '\n'.join(lines) + '\n'


FILES = {'PathCheck.v': gen_pathcheck, 'ParseCalls.v': gen_parsecalls}

"""Small fail-closed translators: facts read from /repo's current sources (Python ast / .pyx text)
are written as Gallina definitions into coq/Gen/*.v on every run. Props/*.v contain obligations
about these generated terms, so an edit that changes an extracted fact breaks a proof obligation.

A translator that meets syntax it does not understand raises; `regenerate` then writes a file
that does not define the expected terms (so dependants no longer compile) and reports the error.
"""
import ast
import os
import re

from .common import COQ, REPO

GEN = os.path.join(COQ, 'Gen')


class TranslateError(Exception):
    pass


def _src(rel):
    return open(os.path.join(REPO, rel)).read()


def _func(tree, name, cls=None):
    body = tree.body
    if cls:
        for n in body:
            if isinstance(n, ast.ClassDef) and n.name == cls:
                body = n.body
                break
        else:
            raise TranslateError('class %s not found' % cls)
    for n in body:
        if isinstance(n, ast.FunctionDef) and n.name == name:
            return n
    raise TranslateError('function %s not found' % name)


def _params(fn):
    a = fn.args
    if a.vararg or a.kwarg or a.posonlyargs:
        raise TranslateError('unsupported signature of %s' % fn.name)
    return [x.arg for x in a.args], [x.arg for x in a.kwonlyargs]


def _calls(fn, callee):
    out = []
    for n in ast.walk(fn):
        if isinstance(n, ast.Call):
            f = n.func
            name = f.id if isinstance(f, ast.Name) else (f.attr if isinstance(f, ast.Attribute) else None)
            if name == callee:
                out.append(n)
    return out


def _binding(call, callee_fn):
    """Map callee formal parameter -> source text of the actual argument."""
    pos, kwonly = _params(callee_fn)
    b = {}
    if any(isinstance(a, ast.Starred) for a in call.args) or any(k.arg is None for k in call.keywords):
        raise TranslateError('star arguments in call of %s' % callee_fn.name)
    if len(call.args) > len(pos):
        raise TranslateError('too many positional arguments in call of %s' % callee_fn.name)
    for formal, actual in zip(pos, call.args):
        b[formal] = ast.unparse(actual)
    for k in call.keywords:
        if k.arg not in pos + kwonly:
            raise TranslateError('unknown keyword %s in call of %s' % (k.arg, callee_fn.name))
        if k.arg in b:
            raise TranslateError('parameter %s bound twice' % k.arg)
        b[k.arg] = ast.unparse(k.value)
    return b


def _cstr(s):
    return '"' + s.replace('"', '""') + '"'


def _bool(b):
    return 'true' if b else 'false'


# ---------------------------------------------------------------------------------------------
def _bexpr(e, atoms):
    s = ast.unparse(e)
    if s in atoms:
        return atoms[s]
    if isinstance(e, ast.BoolOp):
        op = ' || ' if isinstance(e.op, ast.Or) else ' && '
        return '(' + op.join(_bexpr(v, atoms) for v in e.values) + ')'
    if isinstance(e, ast.UnaryOp) and isinstance(e.op, ast.Not):
        return '(negb %s)' % _bexpr(e.operand, atoms)
    raise TranslateError('unsupported boolean expression: ' + s)


def _load():
    import importlib
    import pkgutil
    from . import translators
    gens = {}
    for m in sorted(pkgutil.iter_modules(translators.__path__), key=lambda x: x.name):
        mod = importlib.import_module('harness.translators.' + m.name)
        gens.update(getattr(mod, 'FILES', {}))
    return gens


def regenerate():
    """(Re)write coq/Gen/*.v; only touch a file when its content changed. Returns error strings."""
    import fcntl
    os.makedirs(GEN, exist_ok=True)
    errors = []
    lock = open(os.path.join(COQ, '.verif.lock'), 'w')
    fcntl.flock(lock, fcntl.LOCK_EX)
    try:
        for name, fn in _load().items():
            try:
                text = fn()
            except (TranslateError, SyntaxError, OSError, KeyError, IndexError, AttributeError, ValueError, TypeError) as e:
                errors.append('%s: %s' % (name, e))
                text = '(* translator failed closed: %s *)\n' % str(e).replace('*)', '* )')
            path = os.path.join(GEN, name)
            old = open(path).read() if os.path.exists(path) else None
            if old != text:
                open(path, 'w').write(text)
    finally:
        fcntl.flock(lock, fcntl.LOCK_UN)
        lock.close()
    return errors


if __name__ == '__main__':
    print(regenerate())

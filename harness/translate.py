"""Small fail-closed translators: facts read from /repo's current sources (Python ast / .pyx text)
are written as Gallina definitions into coq/Gen/*.v on every run. Props/*.v contain obligations
about these generated terms, so an edit that changes an extracted fact breaks a proof obligation.

A translator that meets syntax it does not understand raises; `regenerate` then writes a file
that does not define the expected terms (so dependants no longer compile) and reports the error.
"""
import ast
import os
import re

from .common import COQ, REPO

GEN = os.path.join(COQ, 'Gen')


class TranslateError(Exception):
    pass


def _src(rel):
    return open(os.path.join(REPO, rel)).read()


def _func(tree, name, cls=None):
    body = tree.body
    if cls:
        for n in body:
            if isinstance(n, ast.ClassDef) and n.name == cls:
                body = n.body
                break
        else:
            raise TranslateError('class %s not found' % cls)
    for n in body:
        if isinstance(n, ast.FunctionDef) and n.name == name:
            return n
    raise TranslateError('function %s not found' % name)


def _params(fn):
    a = fn.args
    if a.vararg or a.kwarg or a.posonlyargs:
        raise TranslateError('unsupported signature of %s' % fn.name)
    return [x.arg for x in a.args], [x.arg for x in a.kwonlyargs]


def _calls(fn, callee):
    out = []
    for n in ast.walk(fn):
        if isinstance(n, ast.Call):
            f = n.func
            name = f.id if isinstance(f, ast.Name) else (f.attr if isinstance(f, ast.Attribute) else None)
            if name == callee:
                out.append(n)
    return out


def _binding(call, callee_fn):
    """Map callee formal parameter -> source text of the actual argument."""
    pos, kwonly = _params(callee_fn)
    b = {}
    if any(isinstance(a, ast.Starred) for a in call.args) or any(k.arg is None for k in call.keywords):
        raise TranslateError('star arguments in call of %s' % callee_fn.name)
    if len(call.args) > len(pos):
        raise TranslateError('too many positional arguments in call of %s' % callee_fn.name)
    for formal, actual in zip(pos, call.args):
        b[formal] = ast.unparse(actual)
    for k in call.keywords:
        if k.arg not in pos + kwonly:
            raise TranslateError('unknown keyword %s in call of %s' % (k.arg, callee_fn.name))
        if k.arg in b:
            raise TranslateError('parameter %s bound twice' % k.arg)
        b[k.arg] = ast.unparse(k.value)
    return b


def _cstr(s):
    return '"' + s.replace('"', '""') + '"'


def _bool(b):
    return 'true' if b else 'false'


# ---------------------------------------------------------------------------------------------
def gen_routing():
    """Bindings at the call sites that route bipartite / transpose flags (C10, C03)."""
    dist_tree = ast.parse(_src('sknetwork/path/distances.py'))
    sp_tree = ast.parse(_src('sknetwork/path/shortest_path.py'))
    fmt_tree = ast.parse(_src('sknetwork/utils/format.py'))
    get_distances = _func(dist_tree, 'get_distances')
    sp = _func(sp_tree, 'get_shortest_path')
    calls = _calls(sp, 'get_distances')
    if len(calls) != 1:
        raise TranslateError('expected exactly one call of get_distances in get_shortest_path')
    b = _binding(calls[0], get_distances)
    lines = ['(* generated from sknetwork/path/shortest_path.py, distances.py, utils/format.py *)',
             'From Coq Require Import String List Bool.', 'Import ListNotations.', 'Open Scope string_scope.']
    lines.append('Definition sp_binding : list (string * string) := [%s].' %
                 '; '.join('(%s, %s)' % (_cstr(k), _cstr(v)) for k, v in sorted(b.items())))
    lines.append('Definition sp_fb_to_transpose : bool := %s.' % _bool(b.get('transpose') == 'force_bipartite'))
    lines.append('Definition sp_fb_to_force : bool := %s.' % _bool(b.get('force_bipartite') == 'force_bipartite'))
    lines.append('Definition sp_transpose_bound : bool := %s.' % _bool('transpose' in b))
    for formal in ('input_matrix', 'source', 'source_row', 'source_col'):
        lines.append('Definition sp_%s_ok : bool := %s.' % (formal, _bool(b.get(formal) == formal)))
    # get_distances -> get_adjacency
    ga = _func(fmt_tree, 'get_adjacency')
    calls = _calls(get_distances, 'get_adjacency')
    if len(calls) != 1:
        raise TranslateError('expected exactly one call of get_adjacency in get_distances')
    b2 = _binding(calls[0], ga)
    lines.append('Definition dist_adj_binding : list (string * string) := [%s].' %
                 '; '.join('(%s, %s)' % (_cstr(k), _cstr(v)) for k, v in sorted(b2.items())))
    lines.append('Definition dist_fb_to_force : bool := %s.' % _bool(b2.get('force_bipartite') == 'force_bipartite'))
    lines.append('Definition dist_no_directed_flags : bool := %s.' %
                 _bool('allow_directed' not in b2 and 'force_directed' not in b2))
    # the boolean expression deciding `bipartite` in get_adjacency
    expr = None
    for n in ast.walk(ga):
        if isinstance(n, ast.If) and len(n.body) == 1 and isinstance(n.body[0], ast.Assign) \
                and ast.unparse(n.body[0]) == 'bipartite = True':
            expr = n.test
    if expr is None:
        raise TranslateError('decision `bipartite = True` not found in get_adjacency')
    lines.append('Definition adj_decision (force_bipartite square allow_directed symmetric : bool) : bool := %s.' %
                 _bexpr(expr, {'force_bipartite': 'force_bipartite', 'allow_directed': 'allow_directed',
                               'is_square(input_matrix)': 'square', 'is_symmetric(input_matrix)': 'symmetric'}))
    return '\n'.join(lines) + '\n'


def _bexpr(e, atoms):
    s = ast.unparse(e)
    if s in atoms:
        return atoms[s]
    if isinstance(e, ast.BoolOp):
        op = ' || ' if isinstance(e.op, ast.Or) else ' && '
        return '(' + op.join(_bexpr(v, atoms) for v in e.values) + ')'
    if isinstance(e, ast.UnaryOp) and isinstance(e.op, ast.Not):
        return '(negb %s)' % _bexpr(e.operand, atoms)
    raise TranslateError('unsupported boolean expression: ' + s)


GENERATORS = {
    'Routing.v': gen_routing,
}


def regenerate():
    """(Re)write coq/Gen/*.v; only touch a file when its content changed. Returns error strings."""
    os.makedirs(GEN, exist_ok=True)
    errors = []
    for name, fn in GENERATORS.items():
        try:
            text = fn()
        except (TranslateError, SyntaxError, OSError, KeyError, IndexError, AttributeError, ValueError) as e:
            errors.append('%s: %s' % (name, e))
            text = '(* translator failed closed: %s *)\n' % str(e).replace('*)', '* )')
        path = os.path.join(GEN, name)
        old = open(path).read() if os.path.exists(path) else None
        if old != text:
            open(path, 'w').write(text)
    return errors


if __name__ == '__main__':
    print(regenerate())

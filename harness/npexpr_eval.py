"""Reference evaluation (exact rationals) of the array-expression terms of coq/Gen/NpGnn.v, used ONLY to find the arguments at
which exp / ln are applied so that the harness can hand Coq finite oracle tables (Model/NpExpr.v: qtable).  It mirrors
Model/NpExpr.v's [denote]; if the two ever differ, Coq looks an argument up that is not in the table, gets 0, and the
correspondence run reports the difference — so this file is not trusted for the verdict."""
import math
import re
from fractions import Fraction


def _tokens(s):
    return re.findall(r'\(|\)|"[^"]*"|[^\s()]+', s)


def _parse(toks, i):
    if toks[i] == '(':
        items = []
        i += 1
        while toks[i] != ')':
            v, i = _parse(toks, i)
            items.append(v)
        i += 1
        # (5)%Z -> the token after ')' is %Z
        if i < len(toks) and toks[i] == '%Z':
            return int(items[0]), i + 1
        return (items[0] if len(items) == 1 else tuple(items)), i
    t = toks[i]
    if t.startswith('"'):
        return t[1:-1], i + 1
    if re.fullmatch(r'-?\d+', t):
        return int(t), i + 1
    return t, i + 1


def load_terms(path):
    """{name: tree} for every `Definition src_X : nexpr := tree.`"""
    text = open(path).read()
    out = {}
    for m in re.finditer(r'Definition (src_\w+) : nexpr :=\s*(.*?)\.\n', text, re.S):
        tree, _ = _parse(_tokens(m.group(2)), 0)
        out[m.group(1)] = tree
    return out


class Tables:
    def __init__(self):
        self.exp, self.ln = {}, {}

    def fexp(self, x):
        if x not in self.exp:
            try:
                self.exp[x] = Fraction(math.exp(float(x)))
            except OverflowError:
                self.exp[x] = Fraction(0)
        return self.exp[x]

    def fln(self, x):
        if x not in self.ln:
            self.ln[x] = Fraction(math.log(float(x))) if x > 0 else Fraction(0)
        return self.ln[x]


def _num(v):
    return ('V', [Fraction(y) for y in v[1]]) if v[0] == 'L' else v


def _lift1(g, v):
    v = _num(v)
    if v[0] == 'S':
        return ('S', g(v[1]))
    if v[0] == 'V':
        return ('V', [g(x) for x in v[1]])
    return ('M', [[g(x) for x in r] for r in v[1]], v[2])


def _lift2(g, a, b):
    a, b = _num(a), _num(b)
    ka, kb = a[0], b[0]
    if ka == 'S' and kb == 'S':
        return ('S', g(a[1], b[1]))
    if ka == 'S':
        return _lift1(lambda y: g(a[1], y), b)
    if kb == 'S':
        return _lift1(lambda x: g(x, b[1]), a)
    if ka == 'V' and kb == 'V':
        return ('V', [g(x, y) for x, y in zip(a[1], b[1])]) if len(a[1]) == len(b[1]) else None
    if ka == 'M' and kb == 'M':
        if len(a[1]) != len(b[1]) or a[2] != b[2]:
            return None
        return ('M', [[g(x, y) for x, y in zip(r, s)] for r, s in zip(a[1], b[1])], a[2])
    if ka == 'M' and kb == 'V':
        return ('M', [[g(x, y) for x, y in zip(r, b[1])] for r in a[1]], a[2]) if a[2] == len(b[1]) else None
    if ka == 'V' and kb == 'M':
        return ('M', [[g(x, y) for x, y in zip(a[1], r)] for r in b[1]], b[2]) if b[2] == len(a[1]) else None
    return None


def ref_eval(t, env, tab):
    """values: ('S', q) | ('V', [q]) | ('M', rows, ncols) | ('L', [int]); None = error"""
    op = t[0] if isinstance(t, tuple) else t
    ev = lambda x: ref_eval(x, env, tab)
    if op == 'EVar':
        return env.get(t[1])
    if op == 'ELit':
        return ('S', Fraction(t[1]) * Fraction(10) ** t[2])
    if op == 'EBin':
        a, b = ev(t[2]), ev(t[3])
        if a is None or b is None:
            return None
        g = {'BAdd': lambda x, y: x + y, 'BSub': lambda x, y: x - y, 'BMul': lambda x, y: x * y,
             'BDiv': lambda x, y: (x / y if y != 0 else Fraction(0)),
             'BMax': lambda x, y: (x if y < x else y), 'BGt': lambda x, y: Fraction(1 if y < x else 0)}[t[1]]
        return _lift2(g, a, b)
    if op == 'ENeg':
        a = ev(t[1])
        return None if a is None else _lift1(lambda x: 0 - x, a)
    if op == 'ET':
        a = ev(t[1])
        if a is None or a[0] == 'L':
            return None
        if a[0] == 'M':
            n = len(a[1])
            return ('M', [[a[1][i][j] for i in range(n)] for j in range(a[2])], n)
        return a
    if op == 'ESumAxis1':
        a = ev(t[1])
        return ('V', [sum(r, Fraction(0)) for r in a[1]]) if a and a[0] == 'M' else None
    if op == 'ESumAll':
        a = ev(t[1])
        if a is None:
            return None
        if a[0] == 'M':
            return ('S', sum((sum(r, Fraction(0)) for r in a[1]), Fraction(0)))
        if a[0] == 'V':
            return ('S', sum(a[1], Fraction(0)))
        return a if a[0] == 'S' else None
    if op == 'EExpit':
        a = ev(t[1])
        return None if a is None else _lift1(lambda x: Fraction(1) / (1 + tab.fexp(0 - x)), a)
    if op == 'ESoftmax1':
        a = ev(t[1])
        if not a or a[0] != 'M':
            return None
        rows = []
        for r in a[1]:
            e = [tab.fexp(x) for x in r]
            s = sum(e, Fraction(0))
            rows.append([(x / s if s != 0 else Fraction(0)) for x in e])
        return ('M', rows, a[2])
    if op == 'ELog':
        a = ev(t[1])
        return None if a is None else _lift1(tab.fln, a)
    if op == 'EClip':
        a, lo, hi = ev(t[1]), ev(t[2]), ev(t[3])
        if a is None or not lo or not hi or lo[0] != 'S' or hi[0] != 'S':
            return None

        def clip(x):
            m = lo[1] if x < lo[1] else x
            return hi[1] if hi[1] < m else m
        return _lift1(clip, a)
    if op == 'ELen':
        a = ev(t[1])
        return None if a is None else ('S', Fraction(len(a[1])))
    if op in ('EOneHot', 'ETake', 'ESetAt'):
        a, l = ev(t[1]), ev(t[2])
        if not a or not l or a[0] != 'M' or l[0] != 'L' or len(l[1]) > len(a[1]) or any(y >= a[2] for y in l[1]):
            return None
        lab = l[1]
        if op == 'EOneHot':
            return ('M', [[Fraction(1 if (i < len(lab) and j == lab[i]) else 0) for j in range(a[2])]
                          for i in range(len(a[1]))], a[2])
        if op == 'ETake':
            return ('V', [a[1][i][lab[i]] for i in range(len(lab))])
        v = ev(t[3])
        if not v or v[0] != 'V' or len(v[1]) != len(lab):
            return None
        return ('M', [[(v[1][i] if (i < len(lab) and j == lab[i]) else a[1][i][j]) for j in range(a[2])]
                      for i in range(len(a[1]))], a[2])
    if op == 'ESumRowsWhere':
        a, l = ev(t[1]), ev(t[2])
        if not a or not l or a[0] != 'M' or l[0] != 'L' or len(l[1]) != len(a[1]):
            return None
        pos = t[3] == 'true'
        return ('S', sum((sum(r, Fraction(0)) for r, y in zip(a[1], l[1]) if ((y > 0) if pos else (y == 0))), Fraction(0)))
    if op == 'ELet':
        a = ev(t[2])
        return None if a is None else ref_eval(t[3], dict(env, **{t[1]: a}), tab)
    if op == 'EIfOneCol':
        c = ev(t[1])
        if not c or c[0] != 'M':
            return None
        return ev(t[2]) if c[2] == 1 else ev(t[3])
    raise ValueError('unknown node %r' % (op,))


def mat(rows):
    rows = [[Fraction(x) for x in r] for r in rows]
    return ('M', rows, len(rows[0]) if rows else 0)

"""Case generators. Every random choice comes from the random.Random passed in (one PRNG per check)."""
import itertools


def all_undirected(n):
    """All simple undirected graphs on n labelled nodes, as edge lists (i<j)."""
    pairs = [(i, j) for i in range(n) for j in range(i + 1, n)]
    for mask in range(1 << len(pairs)):
        yield [pairs[k] for k in range(len(pairs)) if mask >> k & 1]


def all_directed(n, loops=True):
    pairs = [(i, j) for i in range(n) for j in range(n) if loops or i != j]
    for mask in range(1 << len(pairs)):
        yield [pairs[k] for k in range(len(pairs)) if mask >> k & 1]


def all_biadj(r, c):
    pairs = [(i, j) for i in range(r) for j in range(c)]
    for mask in range(1 << len(pairs)):
        yield [pairs[k] for k in range(len(pairs)) if mask >> k & 1]


def sym(edges):
    s = set()
    for i, j in edges:
        s.add((i, j))
        s.add((j, i))
    return sorted(s)


FAMILIES = ['gnp_sparse', 'gnp_dense', 'tree', 'star', 'path', 'cycle', 'clique', 'union', 'isolated',
            'few_edges', 'loops', 'two_cliques', 'grid']


def random_graph(rng, nmax, directed=False, family=None, nmin=2, allow_loops=True):
    """Returns (n, edges, family). Undirected graphs are returned as symmetric edge lists."""
    fam = family or rng.choice(FAMILIES)
    n = rng.randint(nmin, nmax)
    E = set()

    def add(i, j):
        if i == j and not allow_loops:
            return
        E.add((i, j))
        if not directed:
            E.add((j, i))

    if fam in ('gnp_sparse', 'gnp_dense', 'isolated', 'loops'):
        p = {'gnp_sparse': 1.5 / max(n, 2), 'gnp_dense': 0.5, 'isolated': 0.25, 'loops': 0.3}[fam]
        for i in range(n):
            for j in range(n):
                if (i < j or (directed and i != j)) and rng.random() < p:
                    add(i, j)
        if fam == 'loops' and allow_loops:
            for i in range(n):
                if rng.random() < 0.3:
                    add(i, i)
        if fam == 'isolated':
            iso = set(rng.sample(range(n), max(1, n // 4)))
            E = {(i, j) for (i, j) in E if i not in iso and j not in iso}
    elif fam == 'tree':
        for i in range(1, n):
            add(rng.randrange(i), i)
    elif fam == 'star':
        c = rng.randrange(n)
        for i in range(n):
            if i != c:
                add(c, i)
    elif fam == 'path':
        perm = list(range(n))
        rng.shuffle(perm)
        for a, b in zip(perm, perm[1:]):
            add(a, b)
    elif fam == 'cycle':
        perm = list(range(n))
        rng.shuffle(perm)
        for a, b in zip(perm, perm[1:] + perm[:1]):
            if a != b:
                add(a, b)
    elif fam == 'clique':
        for i in range(n):
            for j in range(i + 1, n):
                add(i, j)
                if directed and rng.random() < 0.5:
                    add(j, i)
    elif fam == 'union':
        k = rng.randint(1, max(1, n - 1))
        for (lo, hi) in ((0, k), (k, n)):
            for i in range(lo, hi):
                for j in range(i + 1, hi):
                    if rng.random() < 0.6:
                        add(i, j)
    elif fam == 'few_edges':
        for _ in range(rng.randint(1, max(1, n // 3))):
            i, j = rng.randrange(n), rng.randrange(n)
            if i != j:
                add(i, j)
        if not E and n >= 2:
            add(0, 1)
    elif fam == 'two_cliques':
        k = n // 2
        for (lo, hi) in ((0, k), (k, n)):
            for i in range(lo, hi):
                for j in range(i + 1, hi):
                    add(i, j)
        if 0 < k < n:
            add(k - 1, k)
    elif fam == 'grid':
        w = max(1, int(n ** 0.5))
        for i in range(n):
            if (i + 1) % w and i + 1 < n:
                add(i, i + 1)
            if i + w < n:
                add(i, i + w)
    return n, sorted(E), fam


def random_weights(rng, edges, directed=False, kind=None):
    """Small integer weights (and a few dyadic ones); symmetric for undirected edge lists."""
    kind = kind or rng.choice(['unit', 'small_int', 'small_int', 'dyadic'])
    w = {}
    for (i, j) in edges:
        if not directed and (j, i) in w:
            w[(i, j)] = w[(j, i)]
            continue
        if kind == 'unit':
            w[(i, j)] = 1
        elif kind == 'small_int':
            w[(i, j)] = rng.randint(1, 5)
        else:
            w[(i, j)] = rng.choice([0.5, 1, 1.5, 2, 0.25, 3])
    return [(i, j, w[(i, j)]) for (i, j) in edges], kind


def random_biadj(rng, rmax, cmax, p=None):
    r = rng.randint(1, rmax)
    c = rng.randint(1, cmax)
    p = p if p is not None else rng.choice([0.2, 0.4, 0.7])
    E = [(i, j) for i in range(r) for j in range(c) if rng.random() < p]
    return r, c, E


def random_perm(rng, n):
    p = list(range(n))
    rng.shuffle(p)
    return p


def all_perms(n):
    return itertools.permutations(range(n))


def rows_of(n, edges):
    rows = [[] for _ in range(n)]
    for e in edges:
        rows[e[0]].append(e[1])
    return rows
